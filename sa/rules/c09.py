"""C09 - GDB mode reports each libwayland closure faithfully, as log mode would."""
import ast
import re

from ..core import AnalysisError, norm
from .common import (effects, paths_of, check_writers, arg_by_name, named_call_sites, ctor_sites, scope_nodes)

TRUSTED = ['CPython ast', 'engine /verif/sa', 'frozen libwayland facts: signature codes iufsonah, union wl_argument members, struct field roles, '
           'wl_fixed_to_double formula, breakpoint function names (libwayland 1.18-1.23)']
CODES = {'i', 'u', 'f', 's', 'o', 'n', 'a', 'h'}
# code -> set of (constructor, is_new or None) the branch must produce; equals log mode's table (C01.3) composed with the printer
KIND = {'i': {('Int', None)}, 'u': {('Int', None)}, 'f': {('Float', None)}, 's': {('String', None)}, 'a': {('Array', None)},
        'h': {('Fd', None)}, 'o': {('Object', False), ('Null', None)}, 'n': {('Object', True)}}
FIXED = "(double)(void*)(((1023LL + 44LL) << 52) + (1LL << 51) + {v}) - (3LL << 43)"


def _branch_codes(test):
    """codes a branch test `c == 'x' or c == 'y'` / `c in ('x','y')` selects; None if not a code test."""
    out = set()
    if isinstance(test, ast.BoolOp) and isinstance(test.op, ast.Or):
        for v in test.values:
            r = _branch_codes(v)
            if r is None:
                return None
            out |= r
        return out
    if isinstance(test, ast.Compare) and len(test.ops) == 1:
        l, r = test.left, test.comparators[0]
        if isinstance(test.ops[0], ast.Eq):
            for a, b in ((l, r), (r, l)):
                if isinstance(a, ast.Name) and isinstance(b, ast.Constant) and isinstance(b.value, str):
                    return {b.value}
        if isinstance(test.ops[0], ast.In) and isinstance(l, ast.Name) and isinstance(r, (ast.Tuple, ast.List, ast.Set)):
            return {e.value for e in r.elts if isinstance(e, ast.Constant)}
        if isinstance(test.ops[0], ast.In) and isinstance(l, ast.Name) and isinstance(r, ast.Constant) and isinstance(r.value, str):
            return set(r.value)
    return None


class _Shape(Exception):
    pass


def _table_keys(repo, mod, name):
    tc = repo.lookup(mod, name)
    keys = None
    if tc and tc[0] == 'var' and tc[1] is not None:
        v = tc[1]
        if isinstance(v, ast.DictComp) and isinstance(v.generators[0].iter, (ast.List, ast.Tuple)):
            keys = {e.value for e in v.generators[0].iter.elts if isinstance(e, ast.Constant)}
        elif isinstance(v, ast.Dict):
            keys = {k.value for k in v.keys if isinstance(k, ast.Constant)}
        elif isinstance(v, (ast.Set, ast.List, ast.Tuple)):
            keys = {e.value for e in v.elts if isinstance(e, ast.Constant)}
        elif isinstance(v, ast.Constant) and isinstance(v.value, str):
            keys = set(v.value)
        else:
            # any other spelling of a constant collection (frozenset('iufsonah'), set([...]), tuple(...), dict.fromkeys(...)): fold it
            from ..peval import fold, Unfoldable, module_resolver
            try:
                val = fold(v.args[0] if isinstance(v, ast.Call) and norm(v.func) in ('frozenset', 'set', 'tuple', 'list', 'dict.fromkeys') and v.args else v,
                           {}, None, module_resolver(repo, mod))
                if isinstance(val, (str, list, tuple, dict)) and all(isinstance(x, str) for x in val):
                    keys = set(val)
            except Unfoldable:
                keys = None
    return keys


def _ast_rules(ctx, repo, f):
    """Rules on the statement structure of the standard form (one loop over the signature whose body is one
    `if <c> in <type codes>` block with an if/elif chain over the codes).  Raises _Shape when extract_message is written
    differently: the path-level rules below then decide alone."""
    site = f.loc()
    loops = [n for n in f.node.body if isinstance(n, ast.For)]
    if len(loops) != 1 or not isinstance(loops[0].target, ast.Name):
        raise _Shape('not one top-level `for <name> in <signature>` loop')
    loop = loops[0]
    cvar = loop.target.id
    guard = None
    for s in loop.body:
        if isinstance(s, ast.If) and isinstance(s.test, ast.Compare) and isinstance(s.test.ops[0], ast.In) and norm(s.test.left) == cvar \
                and isinstance(s.test.comparators[0], ast.Name):
            guard = s
    body_ = [s for s in loop.body if not (isinstance(s, ast.Expr) and isinstance(s.value, ast.Constant))]
    if guard is None and body_ and isinstance(body_[0], ast.If) and isinstance(body_[0].test, ast.Compare) and isinstance(body_[0].test.ops[0], ast.NotIn) \
            and norm(body_[0].test.left) == cvar and len(body_[0].body) == 1 and isinstance(body_[0].body[0], ast.Continue) and not body_[0].orelse:
        # guard-clause form: `if c not in codes: continue` followed by the block - the same thing as `if c in codes: <block>`
        g0 = body_[0]
        guard = ast.If(test=ast.Compare(left=g0.test.left, ops=[ast.In()], comparators=g0.test.comparators), body=body_[1:], orelse=[])
        guard.lineno = g0.lineno
        guard.col_offset = g0.col_offset
        body_ = [guard]
    if guard is None or len(body_) != 1:
        raise _Shape('the loop body is not one `if <c> in <type codes>` block')
    # ---- C09.2 code table ------------------------------------------------------------------------------------
    keys = _table_keys(repo, f.module, norm(guard.test.comparators[0]))
    ctx.check(keys == CODES, 'C09.2', 'type_codes:set', site, 'the type-code table is exactly libwayland\'s {i,u,f,s,o,n,a,h}', 'the type-code table is %s' % (sorted(keys) if keys else keys))
    chain = []
    node = None
    for s in guard.body:
        if isinstance(s, ast.If) and _branch_codes(s.test) is not None:
            node = s
            break
    while node is not None:
        codes = _branch_codes(node.test)
        if codes is None:
            break
        chain.append((codes, node.body, node))
        if len(node.orelse) == 1 and isinstance(node.orelse[0], ast.If):
            node = node.orelse[0]
        else:
            chain.append((None, node.orelse, node))
            node = None
    if not chain:
        raise _Shape('no if/elif chain over the type codes')
    covered = set()
    for codes, body, n in chain:
        if codes:
            covered |= codes
    ctx.check(covered == CODES, 'C09.2', 'branches:cover-codes', site, 'every type code has a branch and no other character has',
              'branches cover %s, table is %s' % (sorted(covered), sorted(CODES)))
    els = [b for c, b, n in chain if c is None]
    ctx.check(all(any(isinstance(s, ast.Raise) for s in b) or not b for b in els), 'C09.2', 'branches:else-raises', site, 'an unexpected code is an error, not silently skipped')
    # ---- C09.1 name capture of the cursor (D5) ---------------------------------------------------------------------
    args_name = None
    for n in f.node.body:
        if isinstance(n, ast.Assign) and isinstance(n.targets[0], ast.Name) and "'wl_closure.args'" in norm(n.value):
            args_name = n.targets[0].id
    cursors = set()
    for n in ast.walk(guard):
        if isinstance(n, ast.Subscript) and isinstance(n.value, ast.Name) and n.value.id == args_name and isinstance(n.slice, ast.Name):
            cursors.add(n.slice.id)
    for cur in sorted(cursors):
        for n in f.body_nodes():
            k = None
            if isinstance(n, (ast.For, ast.comprehension)) and n is not loop and any(isinstance(x, ast.Name) and x.id == cur for x in ast.walk(n.target)):
                k = 'loop-target'
            elif isinstance(n, ast.With) and any(it.optional_vars is not None and any(isinstance(x, ast.Name) and x.id == cur for x in ast.walk(it.optional_vars)) for it in n.items):
                k = 'with'
            elif isinstance(n, ast.NamedExpr) and n.target.id == cur:
                k = 'walrus'
            if k:
                ctx.violation('C09.1', 'cursor:def:%s:%s' % (k, norm(n).split('\n')[0][:60]), f.loc(n),
                              'the argument cursor `%s` is also (re)bound by `%s`: every argument after this point is read from the wrong slot of the closure'
                              % (cur, norm(n).split('\n')[0][:80]))
        ctx.check(True, 'C09.1', 'cursor:no-name-capture:%s' % cur, site, 'no inner loop / with / walrus rebinds the argument cursor')


def _log_mode_reads_nil_new_id(repo):
    """does the argument pattern of log mode (constant-folded from WlPatterns.__init__) accept the printer's `new id T#nil`?"""
    from .. import rx
    import re as _re
    init = repo.try_func('WlPatterns.__init__')
    if init is None:
        return False
    try:
        env, pats = rx.fold_strings(init.node)
        pat = pats['arg_re'][0]
        return _re.match(pat, 'new id wl_callback#nil') is not None
    except Exception:
        return False


def _appended(p, recv):
    """the arguments reported on this path, in order: what is appended to the list `recv`, or - when `recv` holds the value of a
    comprehension that was run as the loop it abbreviates - the elements that comprehension produced"""
    apps = [e for e in p.events if e.kind == 'call' and e.ftext == recv + '.append' and e.args]
    if apps:
        return apps
    comp = None
    for e in p.events:
        if e.kind == 'bind' and e.target == recv:
            comp = getattr(e.value, '_comp', None)
    if comp is None:
        return []
    return [e for e in p.events if e.kind == 'call' and e.ftext == '<listcomp>.append' and e.args and getattr(e, 'recv', None) is comp]


def run(ctx):
    repo = ctx.repo
    ctx.decided = ['C09.1 cursor integrity (the k-th decoded argument is read from slot k, for signatures of up to %d characters)' % (3 if ctx.tier == 'thorough' else 2),
                   'C09.2 code table agreement', 'C09.3 kind table and value sources agree with log mode', 'C09.4 direction and struct-field roles',
                   'C09.5 time unit (see C16.1)']
    ctx.undecided = ["what GDB's expression evaluator returns for the fixed-point formula (only the formula text is compared)", 'the true element type of an array (libwayland does not record it; int is assumed, consistently)']
    ctx.assumptions = ['nothing of GDB mode can be executed in this sandbox; all facts about libwayland are frozen tables']
    f = repo.func('extract.extract_message')
    site = f.loc()
    try:
        _ast_rules(ctx, repo, f)
    except _Shape as e_:
        ctx.check(True, 'C09.2', 'statement-level-rules:not-applicable', site, 'extract_message is not in the standard statement shape (%s): decided by the path-level rules only' % e_)
    keys = None
    for g_, n in scope_nodes(repo, f):
        if isinstance(n, ast.Compare) and len(n.ops) == 1 and isinstance(n.ops[0], (ast.In, ast.NotIn)) and isinstance(n.comparators[0], ast.Name):
            k_ = _table_keys(repo, g_.module, n.comparators[0].id)
            if k_ and k_ & CODES:
                keys = k_
                ctx.check(k_ == CODES, 'C09.2', 'type_codes:set', site, 'the type-code table is exactly libwayland\'s {i,u,f,s,o,n,a,h}', 'the type-code table is %s' % sorted(k_))

    # ---- C09.1 cursor: the k-th decoded argument comes from slot k of the argument array and of the type array -----------------------------
    R_SIG = r"_fast_access\(_fast_access\(\w+, 'wl_closure\.message'\), 'wl_message\.signature'\)\.string\(\)"
    R_ARGS = r"_fast_access\(\w+, 'wl_closure\.args'\)"
    R_TYPES = r"_fast_access\(_fast_access\(\w+, 'wl_closure\.message'\), 'wl_message\.types'\)"

    def canon2(t):
        # enumerate(): <elemK of enumerate(X)>[0] is K, [1] is <elemK of X>
        while True:
            m = re.search(r'<elem(\d+) of enumerate\(', t)
            if not m:
                break
            depth, j = 1, m.end()
            while j < len(t) and depth:
                depth += {'(': 1, ')': -1}.get(t[j], 0)
                j += 1
            inner = t[m.end():j - 1]
            rest = t[j:]
            if not rest.startswith('>'):
                break
            rest = rest[1:]
            if rest.startswith('[0]'):
                t = t[:m.start()] + m.group(1) + rest[3:]
            elif rest.startswith('[1]'):
                t = t[:m.start()] + '<elem%s of %s>' % (m.group(1), inner) + rest[3:]
            else:
                t = t[:m.start()] + '<ELEM%s of enumerate(%s)>' % (m.group(1), inner) + rest
        t = re.sub(r'<elem(\d+) of ' + R_SIG + '>', r'C\1_', t)
        t = re.sub(R_ARGS, 'ARGS_', t)
        t = re.sub(R_TYPES, 'TYPES_', t)
        t = re.sub(r'\[(\d+(?: \+ \d+)+)\]', lambda m_: '[%d]' % sum(int(x) for x in m_.group(1).split(' + ')), t)
        return t
    depth = 3 if ctx.tier == 'thorough' else 2
    paths2 = paths_of(repo, f, unroll=depth)
    n_seq = 0
    slot_problem = None
    undecided_idx = None
    for p in paths2:
        if p.truncated or not p.outcome or p.outcome[0] != 'return':
            continue
        m_ = re.search(r'tuple\((\w+)\)\)$', p.outcome_text())
        recv = m_.group(1) if m_ else 'args'
        apps = _appended(p, recv)
        # iterations of the signature loop whose character is a type code (by the decisions taken) must each append exactly one argument
        iters = {}
        for a, v in p.decisions:
            t = canon2(a.text)
            mm = re.match(r'^C(\d+)_ in \w+$', t)
            if mm:
                iters[int(mm.group(1))] = v
        if apps:
            n_seq += 1
        for j, e in enumerate(apps):
            t = canon2(norm(e.args[0]))
            idx = re.findall(r'(?:ARGS_|TYPES_)\[([^\[\]]*)\]', t)
            it = e.loops[0][1] if e.loops else None
            for ix in idx:
                if ix == 'len(%s)' % recv:
                    ix = str(j)     # the number of arguments appended so far
                if not re.match(r'^\d+$', ix):
                    if '<elem' in ix or '<ELEM' in ix:
                        slot_problem = slot_problem or ('argument %d is read from slot `%s`: the cursor depends on something other than the number of arguments decoded so far' % (j, ix[:80]), p)
                    else:
                        undecided_idx = undecided_idx or ix
                elif int(ix) != j:
                    slot_problem = slot_problem or ('argument %d of the message is read from slot %s of the closure (signature characters %s)' % (
                        j, ix, ', '.join('#%d %s' % (k, 'is a type code' if v else 'is NOT a type code (digit / ?)') for k, v in sorted(iters.items())) or 'all type codes'), p)
            mem = re.findall(r'ARGS_\[[^\[\]]*\]\[(C\d+_|\'\w\')\]', t)
            code_chars = sorted(k for k, v in iters.items() if v)      # positions of the signature characters that are type codes on this path
            for mb in mem:
                if mb.startswith('C') and j < len(code_chars) and mb != 'C%d_' % code_chars[j]:
                    slot_problem = slot_problem or ('argument %d is read through the union member named by signature character %s, but the %d. type code of the signature is character #%d' % (j, mb, j + 1, code_chars[j]), p)
        n_codes = sum(1 for v in iters.values() if v)
        if iters and len(apps) != n_codes and not any(e.kind == 'raise' for e in p.events):
            slot_problem = slot_problem or ('%d signature character(s) are type codes but %d argument(s) are reported' % (n_codes, len(apps)), p)
    if undecided_idx and not slot_problem:
        raise AnalysisError('C09.1: cannot evaluate the slot index `%s` of the closure argument array' % undecided_idx[:80])
    ctx.check(slot_problem is None, 'C09.1', 'cursor:slot-of-kth-argument', site,
              'on every path through up to %d signature characters the k-th decoded argument is read from slot k (value and declared type), through the union member of its own code; digits and ? consume no slot' % depth,
              '%s; path %s' % (slot_problem[0], slot_problem[1].describe()[:200]) if slot_problem else '')
    ctx.floor('C09.1', n_seq, 30, 'returning paths of extract_message that decode arguments (up to %d characters)' % depth)
    # the loop runs over the closure message's signature
    sig_iter = [e for p in paths2[:50] for e in p.events if e.kind == 'loop-iter' and e.loops and len(e.loops) == 1]
    ctx.check(any(re.search(R_SIG, norm(e.value)) for e in sig_iter if e.value is not None), 'C09.4', 'role:signature', site, 'the loop runs over the closure message\'s signature string')

    # ---- C09.3 kind table and value sources (path-based: helpers, conditional expressions and keyword arguments are looked through) --------
    paths = paths_of(repo, f, unroll=1)
    ret_paths = [p for p in paths if p.outcome and p.outcome[0] == 'return']
    ctx.floor('C09.3', len(ret_paths), 9, 'returning paths of extract_message (one loop iteration)')
    R_ARGS = r"_fast_access\(\w+, 'wl_closure\.args'\)"
    R_TY = r"_fast_access\(_fast_access\(\w+, 'wl_closure\.message'\), 'wl_message\.types'\)\[0\]"
    from .common import cparams as _cparams9
    nio = _cparams9(f)[3] if len(f.params()) > 3 else 'new_id_is_actually_an_object'

    def canon(t):
        t = re.sub(r'\[len\(\w+\)\]', '[0]', t)      # one iteration: nothing has been appended yet
        t = re.sub(r"<elem0 of _fast_access\(_fast_access\(\w+, 'wl_closure\.message'\), 'wl_message\.signature'\)\.string\(\)>", 'C_', t)
        t = re.sub(R_ARGS + r"\[0\]\[C_\]", 'V_', t)
        t = re.sub(R_ARGS + r"\[0\]\['o'\]", 'VO_', t)
        t = re.sub(R_TY, 'TY_', t)
        return t

    def code_ok(p, c):
        """is the path consistent with the signature character being c?"""
        for a, v in p.decisions:
            t = canon(a.text)
            if 'C_' not in t:
                continue
            try:
                e = ast.parse(t, mode='eval').body
            except SyntaxError:
                continue
            if not (isinstance(e, ast.Compare) and len(e.ops) == 1):
                continue
            l, r = e.left, e.comparators[0]
            val = None
            if isinstance(e.ops[0], ast.Eq):
                for x, y in ((l, r), (r, l)):
                    if isinstance(x, ast.Name) and x.id == 'C_' and isinstance(y, ast.Constant):
                        val = (y.value == c)
            elif isinstance(e.ops[0], ast.In) and isinstance(l, ast.Name) and l.id == 'C_':
                if isinstance(r, (ast.Tuple, ast.List, ast.Set)) and all(isinstance(x, ast.Constant) for x in r.elts):
                    val = c in {x.value for x in r.elts}
                elif isinstance(r, ast.Constant) and isinstance(r.value, str):
                    val = c in r.value
                elif isinstance(r, ast.Name):
                    val = c in (keys or CODES)
            if val is not None and val != v:
                return False
        return True

    def fact(p, text):
        for a, v in p.decisions:
            if canon(a.text) == text:
                return v
        return None

    def flat_concat(e, parts):
        if isinstance(e, ast.BinOp) and isinstance(e.op, ast.Add):
            flat_concat(e.left, parts)
            flat_concat(e.right, parts)
        elif isinstance(e, ast.Constant) and isinstance(e.value, str):
            parts.append(e.value)
        elif isinstance(e, ast.JoinedStr):
            for v_ in e.values:
                if isinstance(v_, ast.Constant):
                    parts.append(v_.value)
                elif isinstance(v_, ast.FormattedValue) and v_.conversion in (-1, 115) and v_.format_spec is None:
                    parts.append('{v}' if norm(v_.value) in ('V_', 'str(V_)', 'int(V_)') else '{?%s}' % norm(v_.value))
        else:
            parts.append('{v}' if norm(e) in ('str(V_)', 'str(int(V_))') else '{?%s}' % norm(e))

    for c in sorted(CODES):
        cps = []
        for p in ret_paths:
            if not code_ok(p, c):
                continue
            m_ = re.search(r'tuple\((\w+)\)\)$', p.outcome_text())
            recv = m_.group(1) if m_ else 'args'
            apps = _appended(p, recv)
            if apps:
                cps.append((p, apps))
        ctx.check(bool(cps), 'C09.3', 'kind:%s:has-path' % c, site, 'a path decodes code %s and appends an argument' % c, 'no path of extract_message appends an argument for code %s' % c)
        made = set()
        problems = {}
        for p, apps in cps:
            if len(apps) != 1:
                problems.setdefault('one-append', 'code %s appends %d arguments in one iteration on path %s' % (c, len(apps), p.describe()[:200]))
            for ev in apps:
                from ..sim import deep_norm
                t = canon(deep_norm(ev.args[0]))        # locals that hold a list built on this path are shown as that list
                t_ = re.sub(r'<elem0 of (range\([^<>]*\))>', 'IDX_', t)
                try:
                    e = ast.parse(t_, mode='eval').body
                except SyntaxError:
                    made.add(('?' + t[:40], None))
                    continue
                m = re.match(r'^(?:wl\.)?Arg\.(\w+)$', norm(e.func)) if isinstance(e, ast.Call) else None
                if not m:
                    made.add(('?' + t[:40], None))
                    continue
                ctor = m.group(1)
                is_new = None
                if ctor == 'Object':
                    fl = e.args[1] if len(e.args) > 1 else None
                    is_new = fl.value if isinstance(fl, ast.Constant) else '?'
                made.add((ctor, is_new))
                a0 = norm(e.args[0]) if e.args else ''
                tn = fact(p, '_is_null(TY_)')
                tname = {True: 'None', False: "TY_['name'].string()"}.get(tn)
                if ctor == 'Int' and a0 != 'int(V_)':
                    problems.setdefault('value:int', 'the integer reported is %s, not the union value' % a0)
                if ctor == 'Fd' and a0 != 'int(V_)':
                    problems.setdefault('value:fd', 'the fd reported is %s, not the union value' % a0)
                if ctor == 'Float':
                    consts = None
                    for x in ast.walk(e):
                        if isinstance(x, ast.Call) and norm(x.func) == 'gdb.parse_and_eval' and x.args:
                            parts = []
                            flat_concat(x.args[0], parts)
                            consts = ''.join(parts)
                    if consts != FIXED or not re.match(r'^float\(gdb\.parse_and_eval\(', a0):
                        problems.setdefault('value:fixed-formula', 'fixed-point formula is %r (as %s), wl_fixed_to_double is %r' % (consts, a0[:60], FIXED))
                if ctor == 'String':
                    vn = fact(p, '_is_null(V_)')
                    want = {True: "'[null string]'", False: 'V_.string()'}.get(vn)
                    if want is None:
                        problems.setdefault('value:string-null-guard', 'the string %s is read without testing the pointer for null on path %s' % (a0, p.describe()[-160:]))
                    elif a0 != want:
                        problems.setdefault('value:string-null-guard', 'with _is_null(value)=%s the string reported is %s, expected %s (a non-null empty string is a string; log mode decodes "")' % (vn, a0, want))
                if ctor in ('Null', 'Object') and c in 'on':
                    got_t = norm(e.args[0]) if ctor == 'Null' else (norm(e.args[0].args[1]) if isinstance(e.args[0], ast.Call) and norm(e.args[0].func).endswith('UnresolvedObject') and len(e.args[0].args) > 1 else '?')
                    if tname is None or got_t != tname:
                        problems.setdefault('value:%s-interface' % c, 'declared interface reported is %s with _is_null(types[cursor])=%s; expected %s' % (got_t, tn, tname))
                if c == 'o':
                    vn = fact(p, '_is_null(V_)')
                    if vn is None or (ctor == 'Null') != vn:
                        problems.setdefault('value:object-null', 'a %s is reported with _is_null(value)=%s' % (ctor, vn))
                    if ctor == 'Object':
                        got_id = norm(e.args[0].args[0]) if isinstance(e.args[0], ast.Call) and e.args[0].args else '?'
                        if got_id != "int(_fast_access(V_, 'wl_object.id'))":
                            problems.setdefault('value:object-id', 'object id is %s, not wl_object.id of the union value' % got_id)
                if c == 'n' and ctor == 'Object':
                    io = fact(p, nio)
                    want = {True: "int(_fast_access(VO_, 'wl_object.id'))", False: 'int(V_)'}.get(io)
                    got_id = norm(e.args[0].args[0]) if isinstance(e.args[0], ast.Call) and e.args[0].args else '?'
                    if want is None or got_id != want:
                        problems.setdefault('value:new-id', 'new id is %s with %s=%s; expected %s' % (got_id, nio, io, want))
                if ctor == 'Array':
                    x = e.args[0] if e.args else None
                    elt = rng = idx = None
                    if isinstance(x, ast.List):
                        if not x.elts:
                            continue   # zero-element iteration of the inner loop; the one-element path carries the obligation
                        t2 = norm(x.elts[0])
                        rr = [ev2 for ev2 in p.events if ev2.kind == 'loop-iter' and ev2.value is not None and norm(ev2.value).startswith('range(')]
                        if 'IDX_' in t2 and rr:
                            rng = canon(norm(rr[-1].value))
                            idx = 'IDX_'
                            elt = t2
                    if isinstance(x, ast.ListComp) and len(x.generators) == 1 and not x.generators[0].ifs and isinstance(x.generators[0].target, ast.Name):
                        idx = x.generators[0].target.id
                        elt = norm(x.elt)
                        rng = norm(x.generators[0].iter)
                    elif isinstance(x, ast.Name):
                        inner = [ev2 for ev2 in p.events if ev2.kind == 'call' and ev2.ftext == x.id + '.append' and ev2.args]
                        if not inner:
                            continue   # zero-element iteration of the inner loop; the one-element path carries the obligation
                        t2 = canon(norm(inner[0].args[0]))
                        mm = re.search(r'<elem0 of (range\([^<>]*\))>', t2)
                        if mm:
                            rng = mm.group(1)
                            idx = 'IDX_'
                            elt = t2.replace(mm.group(0), 'IDX_')
                    made.add(('Array:elements', None))
                    me = re.match(r"^(?:wl\.)?Arg\.Int\(int\(V_\['data'\]\.cast\((.+)\.pointer\(\)\)\[(\w+)\]\)\)$", elt or '')
                    mr = re.match(r"^range\(int\(V_\['size'\]\) // (.+)\.sizeof\)$", rng or '')
                    if not (me and mr and me.group(2) == idx and me.group(1) == mr.group(1)):
                        problems.setdefault('value:array-elements', 'array elements are %s for index %s in %s' % (elt, idx, rng))
        want_made = set(KIND[c]) | ({('Array:elements', None)} if c == 'a' else set())
        if c == 'n' and ('Null', None) in made and _log_mode_reads_nil_new_id(repo):
            # libwayland prints a null new id as `new id T#nil`; a tree whose log mode reads that spelling may report it in GDB mode too
            want_made = want_made | {('Null', None)}
        ctx.check(made == want_made, 'C09.3', 'kind:%s' % c, site, 'code %s -> %s (as log mode decodes the printed form)' % (c, sorted(KIND[c], key=str)),
                  'code %s produces %s, log mode decodes its print-out as %s' % (c, sorted(made, key=str), sorted(want_made, key=str)))
        names = {'i': ['value:int'], 'u': ['value:int'], 'h': ['value:fd'], 'f': ['value:fixed-formula'], 's': ['value:string-null-guard'],
                 'o': ['value:o-interface', 'value:object-null', 'value:object-id'], 'n': ['value:n-interface', 'value:new-id'], 'a': ['value:array-elements'], }[c]
        for k in sorted(set(names) | set(problems)):
            ctx.check(k not in problems, 'C09.3', '%s:%s' % (k, c) if k in ('value:int', 'one-append') else k, site,
                      {'value:int': 'integers are the union value itself', 'value:fd': 'fds are the union value itself',
                       'value:fixed-formula': 'fixed-point conversion is libwayland\'s wl_fixed_to_double formula applied to the union value',
                       'value:string-null-guard': 'the string is read only when the pointer is not null, and only a null pointer gets the placeholder',
                       'value:object-null': 'a null object pointer is reported as nil, anything else as an object',
                       'value:object-id': 'object ids are read from wl_object.id of the union value',
                       'value:new-id': 'new ids are the union value, or the proxy\'s wl_object.id on the client receive path',
                       'value:array-elements': 'array elements are read size/width times from data with their own index and one element type, reported as integers',
                       }.get(k, 'the declared interface comes from the message\'s type array at the same cursor (nil when absent)' if k.endswith('-interface') else 'one argument per code'),
                      problems.get(k, ''))
    # ---- C09.4 roles --------------------------------------------------------------------------------------------------
    msg_init = repo.func('message.Message.__init__')
    from ..sim import _canon_params
    cps_ = _canon_params(f) or f.params()
    nret = 0
    for p in ret_paths:
        v = p.outcome[1]
        nret += 1
        ok = isinstance(v, ast.Call) and norm(v.func).endswith('Message')
        if ok:
            got = {k: norm(arg_by_name(v, msg_init, k)) for k in ('abs_time', 'obj', 'sent', 'name', 'args')}
            ok = got['obj'] == cps_[1] and got['sent'] == cps_[2] and re.match(r'^tuple\(\w+\)$', got['args']) is not None \
                and re.match(r"^_fast_access\(_fast_access\(%s, 'wl_closure\.message'\), 'wl_message\.name'\)\.string\(\)$" % re.escape(cps_[0]), got['name']) is not None \
                and got['abs_time'] == 'time_now()'
        ctx.check(ok, 'C09.4', 'message:fields', site, 'the message carries the given object and direction, the name of closure->message, the decoded arguments in order, and the current time',
                  'extract_message returns %s' % norm(v)[:200])
    ctx.floor('C09.4', nret, 1, 'returning paths of extract_message')
    sigs = {norm(e.value) for p in paths2[:80] for e in p.events if e.kind == 'loop-iter' and e.value is not None and e.loops and len(e.loops) == 1}
    ctx.check(any(re.search(r"_fast_access\(_fast_access\(%s, 'wl_closure\.message'\), 'wl_message\.signature'\)\.string\(\)" % re.escape(cps_[0]), t) for t in sigs), 'C09.4', 'role:closure-message', site,
              'name, signature and types are fields of closure->message', 'the signature loop runs over %s' % sorted(sigs)[:2])
    for q, sending, objtype in (('extract.received_message', 'False', True), ('extract.sent_message', 'True', False)):
        g = repo.func(q)
        gps = paths_of(repo, g, unroll=1)
        n_calls = 0
        for p in gps:
            evs = [e for e in p.events if e.kind == 'call' and (f in e.targets or e.ftext.split('.')[-1] == 'extract_message')]
            if p.outcome and p.outcome[0] == 'return':
                ctx.check(len(evs) == 1, 'C09.4', 'message:from-extract:%s' % g.name, g.loc(), 'every returning path of %s decodes the closure once' % g.name,
                          'a returning path of %s calls extract_message %d times: %s' % (g.name, len(evs), p.describe()[:200]))
            for e in evs:
                n_calls += 1
                got = {k: norm(arg_by_name(e, f, k)) for k in ('closure', 'object', 'is_sending', 'new_id_is_actually_an_object')}
                loc = g.loc(e.node) if getattr(e, 'node', None) is not None else g.loc()
                ctx.check(got['is_sending'] == sending, 'C09.4', 'direction:%s' % g.name, loc, '%s reports sent=%s' % (g.name, sending),
                          '%s reports sent=%s' % (g.name, got['is_sending']))
                frame = 'gdb.selected_frame()' if objtype else 'gdb.selected_frame().older()'
                clo = "%s.read_var('closure')" % frame
                ctx.check(got['closure'] == clo, 'C09.4', 'role:closure:%s' % g.name, loc, 'the closure decoded is the `closure` variable of the breakpoint\'s %s frame' % ('own' if objtype else 'calling'),
                          'the closure decoded is %s, expected %s' % (got['closure'], clo))
                oid = oty = None
                try:
                    oe = ast.parse(got['object'], mode='eval').body
                    if isinstance(oe, ast.Call) and norm(oe.func).endswith('UnresolvedObject') and len(oe.args) == 2:
                        oid, oty = norm(oe.args[0]), norm(oe.args[1])
                except SyntaxError:
                    pass
                ctx.check(oid == "int(_fast_access(%s, 'wl_closure.sender_id'))" % got['closure'], 'C09.4', 'role:sender-id:%s' % g.name, loc,
                          'the target object id is the closure\'s sender_id', 'target object is %s' % got['object'])
                if objtype:
                    want_t = "_fast_access(gdb.selected_frame().read_var('target')['interface'], 'wl_interface.name').string()"
                    ctx.check(oty == want_t, 'C09.4', 'role:interface-name', loc, 'the target interface is target->interface->name', 'target object is %s' % got['object'])
                else:
                    ctx.check(oty == 'None', 'C09.4', 'role:interface-unknown:%s' % g.name, loc, 'a sent closure has no target object at hand: the interface is left unresolved (None)',
                              'target object is %s' % got['object'])
                # new ids are really objects exactly on the client's receive path (dispatch_event)
                facts = {a.text: v for a, v in p.decisions}
                disp = [v for t, v in facts.items() if re.match(r"^'dispatch_event' == gdb\.selected_frame\(\)\.older\(\)\.name\(\)$", t)]
                want_flag = 'True' if (objtype and disp and disp[0]) else 'False'
                ctx.check(got['new_id_is_actually_an_object'] == want_flag, 'C09.4', 'new-id-flag:%s:%s' % (g.name, want_flag), loc,
                          'new ids are read from the proxy object exactly when the closure is dispatched on the client side (dispatch_event)',
                          '%s passes new_id_is_actually_an_object=%s on path %s; expected %s' % (g.name, got['new_id_is_actually_an_object'], p.describe()[:160], want_flag))
        ctx.floor('C09.4', n_calls, 2 if objtype else 1, 'extract_message call events in ' + q)
    plug = repo.func('Plugin.__init__')
    reg = {}
    for n in plug.body_nodes():
        if isinstance(n, ast.Call) and norm(n.func) == 'WlClosureCallBreakpoint' and len(n.args) >= 3 and isinstance(n.args[1], ast.Constant):
            reg[n.args[1].value] = norm(n.args[2])
    want = {'wl_closure_invoke': 'extract.received_message', 'wl_closure_dispatch': 'extract.received_message', 'serialize_closure': 'extract.sent_message'}
    ctx.check(reg == want, 'C09.4', 'breakpoints:registry', plug.loc(), 'invoke/dispatch report received messages, serialize_closure reports sent ones', 'breakpoint registry is %s' % reg)
    return ('structural analysis of extract_message: definitions of the argument cursor, code table vs branch chain vs frozen libwayland set, '
            'code -> constructor table compared with log mode, struct-field role table. Decided: %s. Undecided: %s' % ('; '.join(ctx.decided), '; '.join(ctx.undecided)))
