"""C09 - GDB mode reports each libwayland closure faithfully, as log mode would."""
import ast
import re

from ..core import AnalysisError, norm
from .common import (effects, paths_of, check_writers, arg_by_name, named_call_sites, ctor_sites)

TRUSTED = ['CPython ast', 'engine /verif/sa', 'frozen libwayland facts: signature codes iufsonah, union wl_argument members, struct field roles, '
           'wl_fixed_to_double formula, breakpoint function names (libwayland 1.18-1.23)']
CODES = {'i', 'u', 'f', 's', 'o', 'n', 'a', 'h'}
# code -> set of (constructor, is_new or None) the branch must produce; equals log mode's table (C01.3) composed with the printer
KIND = {'i': {('Int', None)}, 'u': {('Int', None)}, 'f': {('Float', None)}, 's': {('String', None)}, 'a': {('Array', None)},
        'h': {('Fd', None)}, 'o': {('Object', False), ('Null', None)}, 'n': {('Object', True)}}
FIXED = "(double)(void*)(((1023LL + 44LL) << 52) + (1LL << 51) + {v}) - (3LL << 43)"


def _branch_codes(test):
    """codes a branch test `c == 'x' or c == 'y'` / `c in ('x','y')` selects; None if not a code test."""
    out = set()
    if isinstance(test, ast.BoolOp) and isinstance(test.op, ast.Or):
        for v in test.values:
            r = _branch_codes(v)
            if r is None:
                return None
            out |= r
        return out
    if isinstance(test, ast.Compare) and len(test.ops) == 1:
        l, r = test.left, test.comparators[0]
        if isinstance(test.ops[0], ast.Eq):
            for a, b in ((l, r), (r, l)):
                if isinstance(a, ast.Name) and isinstance(b, ast.Constant) and isinstance(b.value, str):
                    return {b.value}
        if isinstance(test.ops[0], ast.In) and isinstance(l, ast.Name) and isinstance(r, (ast.Tuple, ast.List, ast.Set)):
            return {e.value for e in r.elts if isinstance(e, ast.Constant)}
        if isinstance(test.ops[0], ast.In) and isinstance(l, ast.Name) and isinstance(r, ast.Constant) and isinstance(r.value, str):
            return set(r.value)
    return None


def run(ctx):
    repo = ctx.repo
    ctx.decided = ['C09.1 cursor integrity', 'C09.2 code table agreement', 'C09.3 kind table agrees with log mode', 'C09.4 direction and struct-field roles',
                   'C09.5 time unit (see C16.1)']
    ctx.undecided = ["what GDB's expression evaluator returns for the fixed-point formula (only the formula text is compared)", 'array element width']
    ctx.assumptions = ['nothing of GDB mode can be executed in this sandbox; all facts about libwayland are frozen tables']
    f = repo.func('extract.extract_message')
    site = f.loc()
    # the loop over the signature and the code guard
    loops = [n for n in f.node.body if isinstance(n, ast.For)]
    if len(loops) != 1:
        raise AnalysisError('C09: expected one top-level loop over the signature in extract_message')
    loop = loops[0]
    if not isinstance(loop.target, ast.Name):
        raise AnalysisError('C09: signature loop target is not a name')
    cvar = loop.target.id
    sig_src = None
    for n in f.node.body:
        if isinstance(n, ast.Assign) and isinstance(n.targets[0], ast.Name) and norm(n.targets[0]) == norm(loop.iter):
            sig_src = norm(n.value)
    ctx.check(sig_src is not None and "'wl_message.signature'" in sig_src and sig_src.endswith('.string()'), 'C09.4', 'role:signature', f.loc(loop),
              'the loop runs over the closure message\'s signature string', 'the loop runs over %s' % sig_src)
    guards = [s for s in loop.body if isinstance(s, ast.If)]
    guard = None
    for s in loop.body:
        if isinstance(s, ast.If) and isinstance(s.test, ast.Compare) and isinstance(s.test.ops[0], ast.In) and norm(s.test.left) == cvar:
            guard = s
    if guard is None or len([s for s in loop.body if not (isinstance(s, ast.Expr) and isinstance(s.value, ast.Constant))]) != 1:
        ctx.violation('C09.1', 'guard:shape', f.loc(loop), 'the signature loop no longer consists of one `if <c> in <type codes>` block: version digits/`?` may advance the cursor')
        return 'C09: structure lost'
    ctx.check(not guard.orelse, 'C09.1', 'guard:no-else', f.loc(guard), 'characters that are not type codes (version digits, ?) do nothing')

    # ---- C09.2 code table ------------------------------------------------------------------------------------
    tc = repo.lookup(f.module, norm(guard.test.comparators[0]))
    keys = None
    if tc and tc[0] == 'var' and tc[1] is not None:
        v = tc[1]
        if isinstance(v, ast.DictComp) and isinstance(v.generators[0].iter, (ast.List, ast.Tuple)):
            keys = {e.value for e in v.generators[0].iter.elts if isinstance(e, ast.Constant)}
        elif isinstance(v, ast.Dict):
            keys = {k.value for k in v.keys if isinstance(k, ast.Constant)}
        elif isinstance(v, (ast.Set, ast.List, ast.Tuple)):
            keys = {e.value for e in v.elts if isinstance(e, ast.Constant)}
        elif isinstance(v, ast.Constant) and isinstance(v.value, str):
            keys = set(v.value)
    ctx.check(keys == CODES, 'C09.2', 'type_codes:set', site, 'the type-code table is exactly libwayland\'s {i,u,f,s,o,n,a,h}', 'the type-code table is %s' % (sorted(keys) if keys else keys))
    # branch chain
    chain = []
    node = None
    for s in guard.body:
        if isinstance(s, ast.If) and _branch_codes(s.test) is not None:
            node = s
            break
    while node is not None:
        codes = _branch_codes(node.test)
        if codes is None:
            break
        chain.append((codes, node.body, node))
        if len(node.orelse) == 1 and isinstance(node.orelse[0], ast.If):
            node = node.orelse[0]
        else:
            chain.append((None, node.orelse, node))
            node = None
    covered = set()
    for codes, body, n in chain:
        if codes:
            covered |= codes
    ctx.check(covered == CODES, 'C09.2', 'branches:cover-codes', site, 'every type code has a branch and no other character has',
              'branches cover %s, table is %s' % (sorted(covered), sorted(CODES)))
    els = [b for c, b, n in chain if c is None]
    ctx.check(all(any(isinstance(s, ast.Raise) for s in b) or not b for b in els), 'C09.2', 'branches:else-raises', site, 'an unexpected code is an error, not silently skipped')

    # ---- C09.1 cursor -------------------------------------------------------------------------------------------
    # the cursor is the name that indexes the closure's argument array
    args_name = None
    types_name = None
    for n in f.node.body:
        if isinstance(n, ast.Assign) and isinstance(n.targets[0], ast.Name):
            t = norm(n.value)
            if "'wl_closure.args'" in t:
                args_name = n.targets[0].id
            if "'wl_message.types'" in t:
                types_name = n.targets[0].id
    if args_name is None or types_name is None:
        raise AnalysisError('C09: closure args / message types are not read via the struct-field table any more')
    cursors = set()
    uses = []
    for n in ast.walk(guard):
        if isinstance(n, ast.Subscript) and isinstance(n.value, ast.Name) and n.value.id in (args_name, types_name):
            uses.append(n)
            if isinstance(n.slice, ast.Name):
                cursors.add(n.slice.id)
            else:
                cursors.add(norm(n.slice))
    ctx.floor('C09.1', len(uses), 4, 'subscripts of the closure argument / type arrays')
    ctx.check(len(cursors) == 1 and all(re.match(r'^\w+$', c) for c in cursors), 'C09.1', 'cursor:single-unmodified', site,
              'the argument array and the type array are indexed by one plain cursor variable', 'indexed by %s' % sorted(cursors))
    cur = sorted(cursors)[0] if cursors else 'i'
    stores = []
    for n in f.body_nodes():
        tgt = None
        if isinstance(n, ast.Assign):
            for t in n.targets:
                for x in ast.walk(t):
                    if isinstance(x, ast.Name) and x.id == cur:
                        stores.append((n, 'assign'))
        elif isinstance(n, ast.AugAssign) and isinstance(n.target, ast.Name) and n.target.id == cur:
            stores.append((n, 'aug'))
        elif isinstance(n, (ast.For, ast.comprehension)):
            for x in ast.walk(n.target):
                if isinstance(x, ast.Name) and x.id == cur:
                    stores.append((n, 'loop-target'))
        elif isinstance(n, ast.With):
            for it in n.items:
                if it.optional_vars is not None and any(isinstance(x, ast.Name) and x.id == cur for x in ast.walk(it.optional_vars)):
                    stores.append((n, 'with'))
        elif isinstance(n, ast.NamedExpr) and n.target.id == cur:
            stores.append((n, 'walrus'))
    inits = [n for n, k in stores if k == 'assign' and n in f.node.body and isinstance(n.value, ast.Constant) and n.value.value == 0
             and f.node.body.index(n) < f.node.body.index(loop)]
    incs = [n for n, k in stores if k == 'aug' and isinstance(n.op, ast.Add) and isinstance(n.value, ast.Constant) and n.value.value == 1]
    for n, k in stores:
        good = n in inits or n in incs
        ctx.check(good, 'C09.1', 'cursor:def:%s:%s' % (k, norm(n).split('\n')[0][:60]), f.loc(n),
                  'definition of the argument cursor is its initialisation to 0 or its += 1',
                  'the argument cursor `%s` is also (re)bound by `%s`: every argument after this point is read from the wrong slot of the closure'
                  % (cur, norm(n).split('\n')[0][:80]))
    ctx.check(len(inits) == 1 and len(incs) == 1, 'C09.1', 'cursor:one-init-one-increment', site, 'the cursor has one initialisation and one increment', '%d initialisations, %d increments' % (len(inits), len(incs)))
    if incs:
        inc = incs[0]
        ctx.check(guard.body and guard.body[-1] is inc, 'C09.1', 'cursor:increment-closes-block', f.loc(inc),
                  'the increment is the last statement of the type-code block: it runs once per argument on every non-raising path and never for digits/?',
                  'the increment is not the unconditional last statement of the type-code block')
    jumps = [x for s_ in guard.body for x in ast.walk(s_) if isinstance(x, (ast.Continue, ast.Return)) or
             (isinstance(x, ast.Break) and not any(isinstance(a, (ast.For, ast.While)) and a is not loop and x in ast.walk(a) for s2 in guard.body for a in ast.walk(s2)))]
    ctx.check(not jumps, 'C09.1', 'cursor:no-jump-past-increment', f.loc(jumps[0]) if jumps else site,
              'no continue/return/break inside the type-code block can skip the cursor increment',
              'a `%s` inside the type-code block skips the cursor increment: every later argument is read from the wrong slot' % (norm(jumps[0]) if jumps else ''))
    # the union member read is the code itself
    vals = [n for n in guard.body if isinstance(n, ast.Assign) and isinstance(n.value, ast.Subscript) and norm(n.value) == '%s[%s][%s]' % (args_name, cur, cvar)]
    ctx.check(len(vals) == 1 and guard.body[0] is vals[0], 'C09.2', 'union-member:is-code', f.loc(guard), 'the union member read is the one named by the code character: args[cursor][code]',
              'the argument value is not read as %s[%s][%s] first' % (args_name, cur, cvar))
    vname = vals[0].targets[0].id if vals else 'value'

    # ---- C09.3 kind table ----------------------------------------------------------------------------------------
    for codes, body, n in chain:
        if not codes:
            continue
        made = set()
        for s in body:
            for x in ast.walk(s):
                if isinstance(x, ast.Call) and isinstance(x.func, ast.Attribute) and x.func.attr == 'append' and norm(x.func.value) == 'args' and x.args:
                    a = x.args[0]
                    m = re.match(r'^(?:wl\.)?Arg\.(\w+)\(', norm(a))
                    if not m:
                        made.add(('?' + norm(a)[:30], None))
                        continue
                    is_new = None
                    if m.group(1) == 'Object':
                        fl = a.args[1] if len(a.args) > 1 else None
                        is_new = fl.value if isinstance(fl, ast.Constant) else '?'
                    made.add((m.group(1), is_new))
        for c in sorted(codes):
            ctx.check(made == KIND.get(c), 'C09.3', 'kind:%s' % c, f.loc(n), 'code %s -> %s (as log mode decodes the printed form)' % (c, sorted(KIND[c], key=str)),
                      'code %s produces %s, log mode decodes its print-out as %s' % (c, sorted(made, key=str), sorted(KIND.get(c, ()), key=str)))
        txt = '\n'.join(norm(s) for s in body)
        if 'i' in codes or 'u' in codes:
            ctx.check('Arg.Int(int(%s))' % vname in txt, 'C09.3', 'value:int', f.loc(n), 'integers are the union value itself')
        if 'h' in codes:
            ctx.check('Arg.Fd(int(%s))' % vname in txt, 'C09.3', 'value:fd', f.loc(n), 'fds are the union value itself')
        if 'f' in codes:
            consts = None
            for x in ast.walk(ast.Module(body=body, type_ignores=[])):
                if isinstance(x, ast.Call) and norm(x.func) == 'gdb.parse_and_eval' and x.args:
                    e = x.args[0]
                    parts = []

                    def flat(b):
                        if isinstance(b, ast.BinOp) and isinstance(b.op, ast.Add):
                            flat(b.left)
                            flat(b.right)
                        elif isinstance(b, ast.Constant):
                            parts.append(b.value)
                        else:
                            parts.append('{v}' if norm(b) == 'str(%s)' % vname else '{?%s}' % norm(b))
                    flat(e)
                    consts = ''.join(parts)
            ctx.check(consts == FIXED, 'C09.3', 'value:fixed-formula', f.loc(n), 'fixed-point conversion is libwayland\'s wl_fixed_to_double formula applied to the union value',
                      'fixed-point formula is %r, wl_fixed_to_double is %r' % (consts, FIXED))
        def helper_bodies(arg_text):
            """source text of module-level helpers called in this branch with `arg_text` as their only argument"""
            out = []
            for s_ in body:
                for x in ast.walk(s_):
                    if isinstance(x, ast.Call) and isinstance(x.func, ast.Name) and len(x.args) == 1 and norm(x.args[0]) == arg_text:
                        r_ = repo.lookup(f.module, x.func.id)
                        if r_ and r_[0] == 'func':
                            out.append((x, '\n'.join(norm(b) for b in r_[1].node.body), r_[1].params()[0]))
            return out
        if 's' in codes:
            guarded = any(isinstance(s, ast.If) and '_is_null(%s)' % vname in norm(s.test) for s in body) and '%s.string()' % vname in txt
            via = None
            for call, htxt, hp in helper_bodies(vname):
                if '_is_null(%s)' % hp in htxt and '%s.string()' % hp in htxt:
                    via = call
            if via is not None and not guarded:
                # helper form: its None result must be tested with `is None`, not by truthiness (an empty string is a string)
                par = getattr(via, '_parent', None)
                truthy = isinstance(par, ast.BoolOp) or (isinstance(par, ast.IfExp) and par.test is via) or (isinstance(par, ast.If) and par.test is via) or (isinstance(par, ast.UnaryOp))
                ctx.check(not truthy, 'C09.3', 'value:string-null-guard', f.loc(n), 'the string is read through a null-guarding helper and only a null pointer gets the placeholder',
                          'the string value is tested by truthiness (`%s`): a non-null empty string is reported as the null-string placeholder, log mode decodes ""' % norm(par)[:80])
            else:
                ctx.check(guarded, 'C09.3', 'value:string-null-guard', f.loc(n), 'the string is read only when the pointer is not null')
        if 'o' in codes or 'n' in codes:
            inline = '%s[%s]' % (types_name, cur) in txt and "['name'].string()" in txt and '_is_null(' in txt
            viah = any('_is_null(%s)' % hp in htxt and "%s['name'].string()" % hp in htxt for call, htxt, hp in helper_bodies('%s[%s]' % (types_name, cur)))
            ctx.check(inline or viah, 'C09.3', 'value:%s-interface' % ''.join(sorted(codes)), f.loc(n),
                      'the declared interface comes from the message\'s type array at the same cursor (nil when absent)')
        if 'o' in codes:
            ctx.check("_fast_access(%s, 'wl_object.id')" % vname in txt, 'C09.3', 'value:object-id', f.loc(n), 'object ids are read from wl_object.id of the union value')
        if 'n' in codes:
            ctx.check('int(%s)' % vname in txt and "_fast_access(%s[%s]['o'], 'wl_object.id')" % (args_name, cur) in txt, 'C09.3', 'value:new-id', f.loc(n),
                      'new ids are the union value, or the proxy\'s wl_object.id on the client receive path')
        if 'a' in codes:
            inner = [x for s in body for x in ast.walk(s) if isinstance(x, ast.For)]
            ok = len(inner) == 1 and "%s['size']" % vname in txt and "%s['data']" % vname in txt
            if ok:
                lp = inner[0]
                lv = lp.target.id if isinstance(lp.target, ast.Name) else None
                ok = lv is not None and lv != cur and any('[%s]' % lv in norm(s) for s in lp.body) and 'Arg.Int(int(' in '\n'.join(norm(s) for s in lp.body)
            ctx.check(ok, 'C09.3', 'value:array-elements', f.loc(n), 'array elements are read size/width times from data with their own index and reported as integers',
                      'the array branch does not read its elements with an index of its own')
    # ---- C09.4 roles --------------------------------------------------------------------------------------------------
    msg_init = repo.func('message.Message.__init__')
    rets = [n for n in f.body_nodes() if isinstance(n, ast.Return)]
    ctx.floor('C09.4', len(rets), 1, 'return of extract_message')
    env = {}
    for n in f.node.body:
        if isinstance(n, ast.Assign) and isinstance(n.targets[0], ast.Name):
            env[n.targets[0].id] = norm(n.value)
    for r in rets:
        v = r.value
        ok = isinstance(v, ast.Call) and norm(v.func).endswith('Message')
        if ok:
            got = {k: norm(arg_by_name(v, msg_init, k)) for k in ('abs_time', 'obj', 'sent', 'name', 'args')}
            nm = env.get(got['name'], got['name'])
            ok = got['obj'] == f.params()[1] and got['sent'] == f.params()[2] and got['args'] == 'tuple(args)' and "'wl_message.name'" in nm and nm.endswith('.string()')
        ctx.check(ok, 'C09.4', 'message:fields', f.loc(r), 'the message carries the given object and direction, the closure message\'s name and the decoded arguments in order',
                  'extract_message returns %s' % norm(v)[:160])
    ctx.check("'wl_closure.message'" in env.get('closure_message', '') and 'closure_message' in env.get(loop.iter.id if isinstance(loop.iter, ast.Name) else '', '') , 'C09.4', 'role:closure-message', site,
              'name, signature and types are fields of closure->message')
    for q, sending, objtype in (('extract.received_message', 'False', True), ('extract.sent_message', 'True', False)):
        g = repo.func(q)
        calls = [n for n in g.body_nodes() if isinstance(n, ast.Call) and norm(n.func) == 'extract_message']
        ctx.floor('C09.4', len(calls), 1, 'extract_message call in ' + q)
        genv = {}
        for n in g.body_nodes():
            if isinstance(n, ast.Assign) and isinstance(n.targets[0], ast.Name):
                genv.setdefault(n.targets[0].id, []).append(norm(n.value))
        for c in calls:
            ctx.check(norm(arg_by_name(c, f, 'is_sending')) == sending, 'C09.4', 'direction:%s' % g.name, g.loc(c), '%s reports sent=%s' % (g.name, sending),
                      '%s reports sent=%s' % (g.name, norm(arg_by_name(c, f, 'is_sending'))))
            ob = norm(arg_by_name(c, f, 'object'))
            oid = genv.get('object_id', [''])[0]
            ctx.check(genv.get(ob, [''])[0].startswith('wl.UnresolvedObject(object_id') and "'wl_closure.sender_id'" in oid, 'C09.4', 'role:sender-id:%s' % g.name, g.loc(c),
                      'the target object id is the closure\'s sender_id', 'target object is %s with id %s' % (genv.get(ob), oid))
            ctx.check(norm(arg_by_name(c, f, 'closure')) == 'closure' and any("read_var('closure')" in v for v in genv.get('closure', [])), 'C09.4', 'role:closure:%s' % g.name, g.loc(c), 'the closure decoded is the frame\'s `closure` variable')
        if objtype:
            ctx.check(any("'wl_interface.name'" in v and "['interface']" in v for v in genv.get('obj_type', [])), 'C09.4', 'role:interface-name', g.loc(), 'the target interface is target->interface->name')
    plug = repo.func('Plugin.__init__')
    reg = {}
    for n in plug.body_nodes():
        if isinstance(n, ast.Call) and norm(n.func) == 'WlClosureCallBreakpoint' and len(n.args) >= 3 and isinstance(n.args[1], ast.Constant):
            reg[n.args[1].value] = norm(n.args[2])
    want = {'wl_closure_invoke': 'extract.received_message', 'wl_closure_dispatch': 'extract.received_message', 'serialize_closure': 'extract.sent_message'}
    ctx.check(reg == want, 'C09.4', 'breakpoints:registry', plug.loc(), 'invoke/dispatch report received messages, serialize_closure reports sent ones', 'breakpoint registry is %s' % reg)
    return ('structural analysis of extract_message: definitions of the argument cursor, code table vs branch chain vs frozen libwayland set, '
            'code -> constructor table compared with log mode, struct-field role table. Decided: %s. Undecided: %s' % ('; '.join(ctx.decided), '; '.join(ctx.undecided)))
