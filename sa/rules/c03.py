"""C03 - object lifetimes: alive from creation to delete_id, never resurrected."""
import ast
import re

from ..core import AnalysisError, norm
from ..sim import check_reach
from .common import (dtext, nonempty_atom, check_zero_is_a_value, effects, paths_of, check_writers, check_callers, arg_by_name, named_call_sites)

OB = 'core.wl.object.ObjectBase'
MSGC = 'core.wl.message.Message'


def cmp_canon(sym, var):
    """Canonical (op, const) of a comparison of `var` with an integer constant, or None.  `not (x < c)` -> ('>=', c)."""
    neg = False
    while isinstance(sym, ast.UnaryOp) and isinstance(sym.op, ast.Not):
        neg = not neg
        sym = sym.operand
    if not (isinstance(sym, ast.Compare) and len(sym.ops) == 1):
        return None
    l, r, op = sym.left, sym.comparators[0], type(sym.ops[0])
    flip = {ast.Lt: ast.Gt, ast.Gt: ast.Lt, ast.LtE: ast.GtE, ast.GtE: ast.LtE, ast.Eq: ast.Eq, ast.NotEq: ast.NotEq}
    if norm(r) == var:
        l, r, op = r, l, flip.get(op)
    if norm(l) != var or op is None:
        return None
    try:
        c = ast.literal_eval(r)
    except Exception:
        return None
    if not isinstance(c, int):
        return None
    name = {ast.Lt: '<', ast.Gt: '>', ast.LtE: '<=', ast.GtE: '>=', ast.Eq: '==', ast.NotEq: '!='}[op]
    if neg:
        name = {'<': '>=', '>': '<=', '<=': '>', '>=': '<', '==': '!=', '!=': '=='}[name]
    if name == '>':
        name, c = '>=', c + 1
    if name == '<=':
        name, c = '<', c + 1
    return name, c


def check_alive_flag(ctx, rule):
    """`alive` is either a stored flag written only by __init__ (True) and destroy() (False), or a property that is exactly
    `destroy_time is None`.  Anything else (e.g. truthiness of a time that may be 0.0) is a violation.  Also used by C02."""
    repo = ctx.repo
    f_destroy = repo.func('ObjectBase.destroy')
    ob = repo.cls(OB)
    prop = None
    for c in ob.mro():
        m = c.methods.get('alive')
        if m is not None:
            prop = m
    dp = paths_of(repo, f_destroy)
    if prop is not None:
        rets = [p for p in paths_of(repo, prop) if p.outcome[0] == 'return']
        ok = bool(rets) and all(norm(p.outcome[1]) == 'self.destroy_time is None' for p in rets) and any(norm(d) == 'property' for d in prop.node.decorator_list)
        ctx.check(ok, rule, 'alive:derived', prop.loc(), 'alive is derived as `destroy_time is None`',
                  'alive is computed as `%s`: not equivalent to "destroy() was never called" (a destroy time of 0.0 - the first message\'s time - is falsy)' % (norm(rets[0].outcome[1]) if rets else '?'))
        check_writers(ctx, rule, OB, 'destroy_time', [('ObjectBase.__init__', lambda w: w.fresh and isinstance(w.stmt.value, ast.Constant) and w.stmt.value.value is None), ('ObjectBase.destroy', lambda w: norm(w.stmt.value) == 'time')], floor=2)
        return dp

    def const_store(val):
        return lambda w: w.kind == 'store' and isinstance(w.stmt, (ast.Assign, ast.AnnAssign)) \
            and isinstance(w.stmt.value, ast.Constant) and w.stmt.value.value is val
    check_writers(ctx, rule, OB, 'alive', [('ObjectBase.__init__', lambda w: w.fresh and const_store(True)(w)),
                                           ('ObjectBase.destroy', const_store(False))], floor=2)
    # destroy() always stores False (no path skips it)
    ctx.check(all(any(e.kind == 'store' and e.target == 'self.alive' for e in p.events) for p in dp if p.outcome[0] != 'raise'),
              rule, 'destroy:always-clears', f_destroy.loc(), 'destroy() clears alive on every path')
    return dp


def check_delete_id(ctx, rule2, rule3):
    """delete_id handling in Message.resolve: destroy iff wl_display.delete_id, on the latest incarnation of the named id, with
    the annotation being that very object.  Also used by C02 (the subject of delete_id is attributed, ids become reusable)."""
    repo = ctx.repo
    f_mres = repo.func('message.Message.resolve')
    is_destroy = lambda e: e.kind == 'call' and e.ftext and e.ftext.endswith('.destroy')
    mpaths = paths_of(repo, f_mres, asserts='ignore', unroll=1)

    def m_del(a):
        t = a.text.replace('self.obj.resolve(conn)', 'self.obj')
        if t in ('conn.wl_display() == self.obj',):
            return ('display', True)
        if t == "'delete_id' == self.name":
            return ('delete_id', True)
        if t == '0 < len(self.args)':
            return ('has_args', True)
        if t == 'len(self.args) < 1':
            return ('has_args', False)
        if t in ('len(self.args)', 'self.args'):
            return ('has_args', True)
        ne = nonempty_atom(t, 'self.args')
        if ne is not None:
            return ('has_args', ne)
        return None
    is_destroy = lambda e: e.kind == 'call' and e.ftext and e.ftext.endswith('.destroy')
    probs = check_reach(mpaths, is_destroy, m_del, lambda F: F['display'] and F['delete_id'] and F['has_args'],
                        universe=['display', 'delete_id', 'has_args'])
    ctx.check(not probs, rule2, 'Message.resolve:destroy-iff-delete_id', f_mres.loc(),
              'destroy is reached iff the target is the connection\'s wl_display and the message is delete_id (with an argument)',
              'destroy reached=%s in scenario %s' % ((probs[0][2], probs[0][1]) if probs else ('', '')))
    nd = 0
    for p in mpaths:
        for e in p.events:
            if is_destroy(e):
                nd += 1
                recv = norm(e.recv)
                ctx.check(recv == 'conn.retrieve_object(self.args[0].value, -1, None)', rule2, 'delete_id:object', f_mres.loc(e.node),
                          'the destroyed object is the latest incarnation of the id named by the first argument',
                          'the destroyed object is %s' % recv[:120])
                ctx.check(e.argtext(0) == 'self.timestamp', rule2, 'delete_id:time', f_mres.loc(e.node),
                          'destroy time is the time of the delete_id message', 'destroy time is %s' % e.argtext(0))
                # ---- C03.3: the annotation is that very object
                st = [x for x in p.events if x.kind == 'store' and x.target == 'self.destroyed_obj']
                ctx.check(len(st) == 1 and norm(st[0].value) == recv, rule3, 'delete_id:annotation-same-object', f_mres.loc(e.node),
                          'destroyed_obj is the very object destroy() is called on',
                          'destroyed_obj <- %s but destroy() is called on %s' % ([norm(x.value) for x in st], recv))
        if not any(is_destroy(e) for e in p.events):
            ctx.check(not any(x.kind == 'store' and x.target == 'self.destroyed_obj' for x in p.events), rule3,
                      'resolve:no-annotation-without-destroy', f_mres.loc(), 'no destruction annotation on a path without destroy')
    ctx.floor(rule2, nd, 1, 'destroy call on the delete_id path')

    return is_destroy


def cdb(t):
    """canonical spelling of object-table terms: d.get(k) names the same entry as d[k]"""
    t = re.sub(r'self\.db\.get\((\w+)\)', r'self.db[\1]', t or '')
    # d.setdefault(k, []) is the entry of k, created empty when absent; id lists are never left empty (an object is appended to a
    # fresh list at once, C02.1/C02.2), so its truthiness says whether k was present
    return re.sub(r'self\.db\.setdefault\((\w+), \[\]\)', r'self.db[\1]', t)


def run(ctx):
    repo = ctx.repo
    ctx.decided = ['C03.7 decoded arguments are not shared between lines', 'C03.1 writers of alive', 'C03.2 who destroys', 'C03.3 annotation', 'C03.4 one alive per id',
                   'C03.5 server range', 'C03.6 lifespan']
    ctx.undecided = ['display rounding of the lifespan']
    ctx.assumptions = ['server id range 0xff000000 (Wayland protocol, frozen)', 'no monkey-patching (checked)']
    f_destroy = repo.func('ObjectBase.destroy')
    f_create = repo.func('ConnectionImpl.create_object')
    f_mres = repo.func('message.Message.resolve')

    dp = check_alive_flag(ctx, 'C03.1')

    # ---- C03.2 who destroys ------------------------------------------------------------------------
    check_callers(ctx, 'C03.2', 'destroy', {'Message.resolve', 'ConnectionImpl.create_object'}, floor=2)
    is_destroy = check_delete_id(ctx, 'C03.2', 'C03.3')
    cpaths = paths_of(repo, f_create)

    def m_create(a):
        t = cdb(a.text)
        if re.match(r'^\w+ in self\.db$', t) or re.match(r'^self\.db\[\w+\]$', t):
            return ('present', True)
        if re.match(r'^self\.db\[\w+\] is None$', t):
            return ('present', False)
        if re.match(r'^self\.db\[\w+\]\[-1\]\.alive$', t) or re.match(r'^self\.db\[\w+\]\[-1\]\.destroy_time is None$', t):
            return ('alive', True)      # the second form: alive as a derived property, whose definition C03.1 pins to exactly this test
        if re.match(r'^self\.db\[\w+\]\[-1\]\.owned_by_server\(\)$', t):
            return ('server', True)
        if t == "'wl_registry' == type_name":
            return ('registry', True)
        if t == '2 == obj_id' or re.match(r'^2 == self\.db\[obj_id\]\[-1\]\.id$', t):
            return ('id2', True)        # db[k][-1].id == k by C02.2
        if t == '1 < obj_id':
            return ('valid', True)
        return None
    probs = check_reach(cpaths, is_destroy, m_create,
                        lambda F: F['valid'] and F['present'] and F['alive'] and F['server'] and not (F['registry'] and F['id2']),
                        universe=['valid', 'present', 'alive', 'server', 'registry', 'id2'])
    ctx.check(not probs, 'C03.2', 'create_object:destroy-iff-server-reuse', f_create.loc(),
              'implicit destroy is reached iff the id is present, its last incarnation is alive and server-allocated',
              'implicit destroy reached=%s in scenario %s' % ((probs[0][2], probs[0][1]) if probs else ('', '')))
    # an object comes into being on every creation request except the two refused ones: an invalid id, and a live
    # previous holder of the id that may not be replaced (a client id still alive, or the registry-on-id-2 collision)
    def is_append(e):
        return e.kind == 'call' and e.ftext.endswith('.append') and re.match(r'^self\.db\[\w+\]\.append$', cdb(e.ftext)) is not None
    probs = check_reach(cpaths, is_append, m_create,
                        lambda F: F['valid'] and (not F['present'] or not F['alive'] or (F['server'] and not (F['registry'] and F['id2']))),
                        feasible=lambda F: F['present'] or not (F['alive'] or F['server']),
                        universe=['valid', 'present', 'alive', 'server', 'registry', 'id2'])
    ctx.check(not probs, 'C03.2', 'create_object:creates-iff-allowed', f_create.loc(),
              'a creation request creates the object unless the id is invalid or its previous holder is alive and not replaceable',
              'create_object appends=%s in scenario %s: a legal new id does not come into being (or an illegal one does)' % ((probs[0][2], probs[0][1]) if probs else ('', '')))
    nd2 = 0
    for p in cpaths:
        for e in p.events:
            if is_destroy(e):
                nd2 += 1
                ctx.check(bool(re.match(r'^self\.db\[obj_id\]\[-1\]$', cdb(norm(e.recv)))) and e.argtext(0) == 'time', 'C03.2',
                          'create_object:destroy-args', f_create.loc(e.node), 'the previous incarnation is destroyed at the creating message\'s time',
                          'implicit destroy is %s' % e.text[:100])
    ctx.floor('C03.2', nd2, 1, 'implicit destroy in create_object')

    # ---- C03.3 annotation writers and printing --------------------------------------------------
    check_writers(ctx, 'C03.3', MSGC, 'destroyed_obj', [('Message.__init__', lambda w: w.fresh), ('MockMessage.__init__', lambda w: w.fresh),
                                                         ('Message.resolve', lambda w: w.kind == 'store')], floor=3)
    f_str = repo.func('message.Message.__str__')
    spaths = paths_of(repo, f_str)
    ns = 0
    for p in spaths:
        if p.outcome[0] != 'return':
            continue
        ns += 1
        d = [v for a, v in p.decisions if a.text in ('self.destroyed_obj',)] + [not v for a, v in p.decisions if a.text == 'self.destroyed_obj is None']
        t = dtext(p.outcome[1])
        has = '.destroyed' in t and 'str(self.destroyed_obj)' in t
        if d:
            ctx.check(has == d[0], 'C03.3', '__str__:annotation-iff-set:%s' % d[0], f_str.loc(),
                      'the line carries the destruction annotation iff destroyed_obj is set (here: %s)' % d[0],
                      'destroyed_obj set=%s but annotation present=%s' % (d[0], has))
            if d[0]:
                ls = [v for a, v in p.decisions if a.text == 'self.destroyed_obj.lifespan() is None']
                if ls and not ls[0]:
                    ctx.check('self.destroyed_obj.lifespan()' in t, 'C03.3', '__str__:lifespan-shown', f_str.loc(),
                              'the annotation shows the destroyed object\'s lifespan')
                # the lifespan is a number that can be 0.0 (creation and delete_id with the same timestamp): it may be tested for
                # None, never by truthiness
                tr = [a.text for a, v in p.decisions if a.text in ('self.destroyed_obj.lifespan()', 'not self.destroyed_obj.lifespan()')
                      or re.match(r'^(0(\.0)? (<|==) )?self\.destroyed_obj\.lifespan\(\)( (>|==) 0(\.0)?)?$', a.text)]
                ctx.check(not tr, 'C03.3', '__str__:lifespan-tested-for-none-only', f_str.loc(), 'whether a lifespan is shown depends only on its being known (not None)',
                          'Message.__str__ decides on `%s`: a lifespan of exactly 0.0 (creation and delete_id carry the same timestamp) is treated as unknown and the annotation loses it' % (tr[0] if tr else ''))
        else:
            ctx.violation('C03.3', '__str__:unconditional', f_str.loc(), 'Message.__str__ does not test destroyed_obj on path %s' % p.describe()[:160])
    ctx.floor('C03.3', ns, 2, 'returning paths of Message.__str__')

    # ---- C03.4 one alive per id --------------------------------------------------------------------
    na = 0
    for p in cpaths:
        facts = {}
        for a, v in p.decisions:
            m = m_create(a)
            if m:
                facts[m[0]] = v if m[1] else not v
        app = [e for e in p.events if e.kind == 'call' and e.ftext and re.match(r'^self\.db\[\w+\]\.(append|insert|extend)$', cdb(e.ftext))]
        if app and facts.get('present') and facts.get('alive'):
            na += 1
            idx = p.events.index(app[0])
            ctx.check(any(is_destroy(e) for e in p.events[:idx]), 'C03.4', 'create_object:no-second-alive', f_create.loc(app[0].node),
                      'a new incarnation is appended over an alive one only after destroying it',
                      'path %s appends a second alive object for the id' % p.describe()[:220])
    ctx.floor('C03.4', na, 1, 'append-over-alive paths of create_object')

    # ---- C03.5 server range ------------------------------------------------------------------------
    f_obs = repo.func('ObjectBase.owned_by_server')
    op = [p for p in paths_of(repo, f_obs) if p.outcome[0] == 'return']
    ctx.floor('C03.5', len(op), 1, 'owned_by_server return')
    for p in op:
        c = cmp_canon(p.outcome[1], 'self.id')
        ctx.check(c == ('>=', 0xff000000), 'C03.5', 'owned_by_server:range', f_obs.loc(), 'owned_by_server() is id >= 0xff000000',
                  'owned_by_server() is %s (canonical %s), the protocol says id >= 0xff000000' % (norm(p.outcome[1]), c))

    # ---- C03.6 lifespan ----------------------------------------------------------------------------
    check_zero_is_a_value(ctx, 'C03.6', 'a creation or destruction at time 0.0, a lifespan of 0.0, incarnation 0',
                          lambda f: f.module.name in ('core.wl.object', 'core.wl.message', 'core.connection_impl'), floor=10)
    f_life = repo.func('ObjectBase.lifespan')
    lp = paths_of(repo, f_life)
    nl = 0
    for p in lp:
        if p.outcome[0] == 'return' and norm(p.outcome[1]) != 'None':
            nl += 1
            ctx.check(norm(p.outcome[1]) == 'self.destroy_time - self.create_time', 'C03.6', 'lifespan:difference', f_life.loc(),
                      'lifespan = destroy_time - create_time', 'lifespan is %s' % norm(p.outcome[1]))
    ctx.floor('C03.6', nl, 1, 'non-None path of lifespan')
    for p in dp:
        st = [e for e in p.events if e.kind == 'store' and e.target == 'self.destroy_time']
        ctx.check(len(st) == 1 and norm(st[0].value) == 'time', 'C03.6', 'destroy:stores-time', f_destroy.loc(), 'destroy stores its time parameter')
    check_writers(ctx, 'C03.6', OB, 'destroy_time', [('ObjectBase.__init__', lambda w: w.fresh), ('ObjectBase.destroy', None)], floor=2)
    check_writers(ctx, 'C03.6', OB, 'create_time', [('__init__', lambda w: w.fresh)], floor=2)
    ro_init = repo.func('ResolvedObject.__init__')
    for p in paths_of(repo, ro_init, asserts='ignore'):
        st = [e for e in p.events if e.kind == 'store' and e.target == 'self.create_time']
        ctx.check(len(st) >= 1 and norm(st[-1].value) == 'create_time', 'C03.6', 'ResolvedObject:create_time', ro_init.loc(),
                  'ResolvedObject stores its create_time parameter')
    nct = 0
    for p in cpaths:
        for e in p.events:
            if e.kind == 'call' and isinstance(e.node, ast.Call) and norm(e.node.func).split('.')[-1] == 'ResolvedObject':
                nct += 1
                ctx.check(norm(arg_by_name(e, ro_init, 'create_time')) == 'time', 'C03.6', 'create_object:create_time', f_create.loc(e.node),
                          'the new object is stamped with the creating message\'s time')
    ctx.floor('C03.6', nct, 1, 'ResolvedObject construction in create_object')
    # ---- C03.7 the argument a destruction / creation is resolved from belongs to its line alone ----------------------
    # Arg.Object.resolve() completes the argument object in place; a memoised decoder function would hand the already completed object of an
    # earlier line to a later line with the same text - its delete_id would then be annotated with the earlier incarnation
    from .common import check_no_memoised_mutables
    n_memo = check_no_memoised_mutables(ctx, 'C03.7', [repo.func('parse.message')], 'line')
    ctx.check(True, 'C03.7', 'decoder:no-shared-argument-objects', repo.func('parse.message').loc(), 'memoised functions in the decoder closure examined: %d' % n_memo)
    return ('writer enumeration of alive/destroy_time/create_time/destroyed_obj; scenario evaluation of the two destroy sites; '
            'path rule for one-alive-per-id. Decided: %s. Undecided: %s' % ('; '.join(ctx.decided), '; '.join(ctx.undecided)))
