# Demonstration of D6 with a stub gdb module: wl_connection_destroy for a connection that never carried a message
import sys
sys.path.insert(0, '/verif/demos/stub'); sys.path.insert(0, sys.argv[1] if len(sys.argv) > 1 else '/repo')
import gdb
gdb.STDERR = 2
from backends.gdb_plugin import plugin
from core import ConnectionManager, output
from frontends.tui import Controller
from core import matcher
out = output.Null()
cm = ConnectionManager()
ctl = Controller(out, cm, matcher.always, matcher.never)
p = plugin.Plugin(out, cm, ctl, ctl)
p.close_connection('gdb_conn:0xdead')      # never seen: must be tolerated
p.open_connection('gdb_conn:0x1', None)
p.close_connection('gdb_conn:0x1')
p.close_connection('gdb_conn:0x1')         # destroyed twice / already closed
assert len(cm.connections()) == 1 and not cm.connections()[0].is_open()
print('OK')
