#!/bin/sh
# Demonstration of D8 (undecodable bytes abort file/pipe/run mode) and D9 (list (5) dies on a non-finite float argument)
REPO=${1:-/repo}
PY=/venv/bin/python
tmp=$(mktemp -d)
printf '[1.0]  -> wl_display@1.get_registry(new id wl_registry@2)\n\377\376 garbage\n[2.0] wl_display@1.delete_id(2)\n' > $tmp/bad.log
fail=0
out=$(cd $REPO && echo quit | $PY main.py -C -l $tmp/bad.log 2>&1); echo "$out" | grep -q 'delete_id' || { echo "D8 file mode: input not consumed to the end"; fail=1; }
out=$(cd $REPO && LC_ALL=C.UTF-8 $PY main.py -C -p < $tmp/bad.log 2>&1); echo "$out" | grep -q 'delete_id' || { echo "D8 pipe mode: input not consumed to the end"; fail=1; }
out=$(cd $REPO && echo quit | $PY main.py -C -r sh -c "cat $tmp/bad.log >&2" 2>&1); echo "$out" | grep -q 'delete_id' || { echo "D8 run mode: input not consumed to the end"; fail=1; }
printf '[1.0]  -> wl_display@1.sync(1e999)\n' > $tmp/inf.log
out=$(cd $REPO && printf 'list (5)\nquit\n' | $PY main.py -C -l $tmp/inf.log 2>&1); echo "$out" | grep -q 'OverflowError' && { echo "D9: list (5) raised OverflowError"; fail=1; }
rm -rf $tmp
[ $fail = 0 ] && echo OK
exit $fail
