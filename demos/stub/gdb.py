# minimal stub of the gdb module, enough to import backends.gdb_plugin.extract / plugin
TYPE_CODE_PTR = 1
STDERR = 2
class _T:
    def __init__(s, name, sizeof=4): s.name=name; s.sizeof=sizeof
    def pointer(s): return _T(s.name+'*')
def lookup_type(n): return _T(n)
class Breakpoint:
    def __init__(s,*a,**k): pass
class Command:
    def __init__(s,*a,**k): pass
COMMAND_DATA = 0
def execute(x): pass
def breakpoints(): return []
def write(*a): pass
class _Thread: global_num = 1
def selected_thread(): return _Thread()
def parse_and_eval(s): return 0.0
