# Demonstration of D5 with a stub gdb module: closure with signature 'ai' (array of 2 ints, then int 42)
import sys
sys.path.insert(0, '/verif/demos/stub'); sys.path.insert(0, sys.argv[1] if len(sys.argv) > 1 else '/repo')
import gdb
from backends.gdb_plugin import extract
from core import wl

class Val:
    def __init__(self, v): self.v = v
    def __int__(self): return self.v
    def string(self): return self.v
    def __getitem__(self, k): return self.v[k]
    def cast(self, t): return self
array = Val({'size': Val(8), 'data': Val([Val(7), Val(8)])})
closure_args = [Val({'a': array}), Val({'i': Val(42)}), Val({'i': Val(-1)})]
fields = {'wl_closure.message': 'MSG', 'wl_message.name': Val('m'), 'wl_message.signature': Val('ai'), 'wl_message.types': [Val(0), Val(0)], 'wl_closure.args': closure_args}
extract._fast_access = lambda value, key: fields[key]
m = extract.extract_message('CLOSURE', wl.UnresolvedObject(3, 'x'), True, False)
print([type(a).__name__ + ':' + str(getattr(a, 'value', [v.value for v in a.values] if hasattr(a, 'values') else '')) for a in m.args])
assert m.args[1].value == 42, 'second argument read from the wrong slot: %r' % m.args[1].value
print('OK')
