# Demonstration of D10: words before -g must reach the instance inside GDB exactly
import sys, types
sys.path.insert(0, sys.argv[1] if len(sys.argv) > 1 else '/repo')
from backends.gdb_plugin import runner
from frontends.tui.arguments import parse_args
captured = {}
class FakePopen:
    def __init__(self, call_args, env=None): captured['argv'] = call_args; self.returncode = 0
    def wait(self): return 0
runner.subprocess.Popen = FakePopen
runner.verify_gdb_available = lambda: None
words = ['main.py', '-f', 'a\\nb', '-b', 'x\\', '-g', 'prog', '-f', 'not-ours']
args = parse_args(list(words)) if False else None
from frontends.tui.arguments import Arguments, Mode
from core import matcher
a = Arguments(False, False, True, Mode.GDB_RUNNER, '', matcher.always, matcher.never, None, words[:5], words[6:])
runner.run_gdb(a, True)
argv = captured['argv']
assert argv[0] == 'gdb' and argv[1] == '-ex' and argv[3:] == words[6:], argv
cmd = argv[2]
assert cmd.startswith('python ')
code = cmd[len('python '):]
ns = {}
fake_sys = types.SimpleNamespace(argv=None)
code = code.replace('import sys; ', '')
opened = {}
def fake_open(p): opened['path'] = p; return types.SimpleNamespace(read=lambda: 'pass')
exec(code, {'sys': fake_sys, 'open': fake_open, 'exec': exec})
assert fake_sys.argv == words[:5], (fake_sys.argv, words[:5])
assert opened['path'] == words[0]
print('OK')
