# Demonstration of D7: a coloured line pasted back as a command must be understood like its plain text
import sys
sys.path.insert(0, sys.argv[1] if len(sys.argv) > 1 else '/repo')
from core import ConnectionManager, matcher
from core.output import Output, stream
from frontends.tui import Controller
out_s, err_s = stream.String(), stream.String()
out = Output(False, True, out_s, err_s)
ctl = Controller(out, ConnectionManager(), matcher.always, matcher.never)
ctl.process_command('\x1b[0m       |  hello')          # a pasted pass-through line (starts with a colour reset)
ctl.process_command('\x1b[1;37m help\x1b[0m filter')   # coloured text with blanks inside the colour
plain_out, plain_err = stream.String(), stream.String()
ctl2 = Controller(Output(False, True, plain_out, plain_err), ConnectionManager(), matcher.always, matcher.never)
ctl2.process_command('       |  hello')
ctl2.process_command(' help filter')
assert (out_s.buffer, err_s.buffer) == (plain_out.buffer, plain_err.buffer), (out_s.buffer, err_s.buffer, plain_out.buffer, plain_err.buffer)
print('OK')
