#!/bin/sh
# Runs every registered quick check on /repo, rewrites the evidence files, validates manifest and evidence.
cd "$(dirname "$0")/.."
python3 tools/gen_manifest.py
rc=0
for p in $(python3 -c "import json;print(' '.join(c['property_id'] for c in json.load(open('MANIFEST.json'))['checks']))"); do
  ./check $p --tier ${1:-quick} > /tmp/verif_run_$p.log 2>&1; c=$?
  head -1 /tmp/verif_run_$p.log
  grep -E "^(VIOLATION|ANALYSIS-ERROR|KNOWN-FINDING)" /tmp/verif_run_$p.log | cut -c1-200
  [ $c = 0 ] || rc=1
done
python3-vt - <<'PY'
import json, jsonschema
m=json.load(open('MANIFEST.json'))
jsonschema.validate(m, json.load(open('/root/.vp/MANIFEST.schema.json')))
for c in m['checks']:
    e=json.load(open(c['evidence_file']))
    jsonschema.validate(e, json.load(open('/root/.vp/EVIDENCE.schema.json')))
print('manifest + %d evidence files valid' % len(m['checks']))
PY
exit $rc
