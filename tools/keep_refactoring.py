#!/usr/bin/env python3
"""tools/keep_refactoring.py <dir> <property> "<false alarms before the specificity work>"  -> /verif/refactorings/<name>/
A behaviour-preserving refactoring written by a sub-agent that saw only the property text: every check must stay silent on it."""
import json, os, shutil, subprocess, sys
src, prop, before = sys.argv[1], sys.argv[2], sys.argv[3]
name = os.path.basename(src.rstrip('/'))
dst = os.path.join('/verif/refactorings', name)
os.makedirs(dst, exist_ok=True)
for root, dirs, files in os.walk(src):
    dirs[:] = [d for d in dirs if d != '__pycache__']
    for fn in files:
        if fn == 'PROMPT.txt' or fn.endswith('.pyc'):
            continue
        rel = os.path.relpath(os.path.join(root, fn), src)
        os.makedirs(os.path.dirname(os.path.join(dst, rel)) or dst, exist_ok=True)
        shutil.copy(os.path.join(root, fn), os.path.join(dst, rel))
out = subprocess.run(['/verif/tools/try_refactor.sh', dst], capture_output=True, text=True).stdout
lines = out.strip().splitlines()
alarms = sorted({l.split()[2] for l in lines if l.startswith('  FALSE ALARM')})
undecided = sorted({l.split()[3] for l in lines if l.startswith('  undecided')})
meta = {'refactoring': name, 'property': prop, 'what': open(os.path.join(dst, 'notes.md')).read()[:1500] if os.path.exists(os.path.join(dst, 'notes.md')) else '',
        'confirmed': {'how': 'tools/try_refactor.sh: fresh worktree of /repo HEAD; equivalence demo before and after; baseline test command; ./check <all> --repo <worktree> --dry',
                      'result_line': lines[0] if lines else ''},
        'false_alarms_before_specificity_work': before, 'false_alarms_now': alarms, 'undecided_now': undecided}
json.dump(meta, open(os.path.join(dst, 'meta.json'), 'w'), indent=1)
print(name, prop, 'alarms', alarms, 'undecided', undecided)
