#!/usr/bin/env python3
"""Regenerates /verif/MANIFEST.json from the table below (keeps it schema-valid)."""
import json
import os

HERE = os.path.dirname(os.path.dirname(os.path.abspath(__file__)))
LEVEL = ('static obligations that are necessary conditions of the property, decided from the current source on every run; for the '
         'history-quantified clauses the obligations form an inductive invariant over all writer sites (holds for every history), for '
         'the input-quantified clauses they are language inclusions / scenario tables over finite orderings (hold for every input). ')

CHECKS = {
 'C01': ('automata inclusion/disjointness of the source\'s regexes vs the frozen printer language; path enumeration of argument()/message()',
         'decides: argument kinds and priority for every rendering, line acceptance and direction for every line (<=3 args quick, <=20 thorough), dispatch table, field provenance, separator agreement. NOT decided: the hand-written splitter on every string, ambiguous capture binding, int/float conversion. Trusted: CPython ast/re._parser, libwayland printer formats 1.18-1.23.'),
 'C02': ('writer enumeration + path enumeration (inductive invariant of the object table)',
         'decides: db[k] append-only, db[k][g].generation==g and id==k, lookups use -1, creation only from new-id args, typing only by wl_registry.bind, label=f(id,generation). NOT decided: arithmetic of number_to_letter_id.'),
 'C03': ('writer enumeration of alive/destroy_time, scenario evaluation of the two destroy sites, path rule one-alive-per-id',
         'decides: never resurrected, destroy iff delete_id on wl_display / server-id reuse, annotation is the destroyed object, lifespan = destroy-create, server range constant. NOT decided: display rounding.'),
 'C04': ('effect closure of the ingestion path, scenario evaluation of open/route/close, writer enumeration of connection tables',
         'decides: no shared mutable state between connections (except time origin and immutable caches), routing by id, naming A,B,C.. from one counter, reopen closes first and creates a fresh connection, close once, log back end opens before first message and closes all at end. NOT decided: interleaving-independence as observable equality (follows from the above).'),
 'C05': ('path enumeration with three-valued evaluation of the combinators (list, argument list, pair, pattern); projection table of the value matchers; folding of the wildcard construction; role tables of the parser',
         'decides ONLY structural clauses: a list matches iff some alternative and no exclusion does; every item of an argument list needs some argument and no excluded item any (lists/arguments up to the unrolling bound); a pattern selects messages on / creating (.new) / destroying (.destroyed) its object, the bare form adds messages mentioning it; * is everything and ! nothing; which part of an argument / object / connection each value matcher is applied to; a word with * becomes the anchored escaped pattern with .* for *; which piece of `conn: obj.name(args)`, of `a, b ! c` and of `name=value` becomes which matcher, brackets recursing into the same sub-parser, every piece stripped of blanks. NOT decided: what matches() returns for a given expression and message (the property as a whole), soundness of simplify() beyond C12.6, the bracket/quote-aware splitter on arbitrary nesting, regular-expression semantics.'),
 'C06': ('scenario evaluation of the live-view guard, who-calls tables, transitive write sets',
         'decides: recorded always and first, shown iff (no selection or this connection) and filter, one display route, once per arrival, filter/selection commands touch no record and display nothing, the filter object is never mutated in place, matches() pure; lifts C05 (what the filter selects) and the pass-through rule of C08.2 (a message lost to an error while it is resolved: open known finding, the same input as the C08 one).'),
 'C10': ('scenario evaluation (breakpoint guard, invoke_command, prompt loop), call-graph closures over the command registry, writer enumeration of flags',
         'decides: stop() returns the pause flag computed for this message, pause iff breakpoint matches (and selection), only resume resumes / quit quits, loop prompts while paused and not quitting. NOT decided: matches() result, GDB internals.'),
 'C11': ('effect closure of list_command; path enumeration of the scan with the returned list and the three counts folded per path; folding of list_command on argument shapes; cap scenarios',
         'decides: listing is read-only, source by selection, oldest first with cap keeping the last N, counts sum to the record size, matcher choice. NOT decided: matches() result.'),
 'C12': ('path enumeration of parse_and_join (with modelled parse failure), join, MatcherList.matches; typestate of stored matchers',
         'decides: failed parse keeps the old matcher and reports, each command updates its own matcher, join replaces on */! and otherwise leaves alternatives = keep-not-star(new ++ old) or [*] and exclusions = new ++ old (list algebra over the stores of each path), list = some alternative and no exclusion, simplify only maps / drops never-constants / collapses to *. NOT decided: meaning of individual alternatives (C05).'),
 'C07': ('XML corpus cross-checks, scenario tables (version contest, enum decoding), identity chains (positional lookup, field mapping)',
         'decides: the 17 hand-applied enum tags resolve in every winning description, reader vocabulary occurs in the corpus, highest version wins, argument i is the i-th declared, overrides call super, enum/bitfield decode table and fallbacks, unknown interface stays undecorated. NOT decided: per-entry facts as an enumeration; parse_enum_value arithmetic. Trusted: shipped XML read as data.'),
 'C08': ('path enumeration of parse_all with modelled decode failures; exception flow into the pass-through handler over the RTA call graph',
         'decides: one readline and one outcome per iteration, pass-through text is the line and only for non-messages (every other raise site reaching the handler is reported), loop exits only on EOF/interrupt, --supress read only by the pass-through sink, synchronous output chain. NOT decided: OS buffering; behaviour after the internal-error latch. One recorded finding (D4).'),
 'C09': ('path enumeration of extract_message / received_message / sent_message against frozen libwayland tables; sibling comparison with log mode\'s kind table',
         'decides: on every path through up to 2 (thorough: 3) signature characters the k-th decoded argument is read from slot k of the argument and type arrays through the union member of the k-th type code (digits and ? consume no slot); code table = {iufsonah}; per code the appended argument term (constructor, value source, null guards, fixed-point formula, array element type) equals what log mode decodes; call-event role table of received/sent_message (closure frame, sender id, interface, direction, new-id flag per calling function); breakpoint registry. NOT decided: what GDB evaluates; the true element type of arrays. Nothing of GDB mode is executed.'),
 'C13': ('call structure of main() over all Mode members; provenance of argv/env/stderr/exit status; read discipline of the parser',
         'decides: the three log modes feed one ConnectionManager/Controller/Output through into_sink once, parser reads by readline() only, child started with verbatim argv, copied env + WAYLAND_DEBUG=1, stdout untouched, exit status passed through. NOT decided: chunking/timing as observable equality (delegated to TextIOWrapper); join timeout.'),
 'C14': ('finite-domain evaluation of character classes; folding of the encoder / decoder path terms on every index / label of up to 2 (thorough: 3) letters; identity chains',
         'decides: label letters are within what the matcher lexer accepts and disjoint from digits, both sides use the unmodified (id, generation) pair, the encoder is the bijective base-26 numeration a..z, aa.. and the decoder its inverse for every label of up to 2 (thorough: 3) letters (terms of the paths folded on constants; nothing executed), connection matcher sees the displayed name, names from one counter advanced by exactly one. NOT decided: labels longer than that (needs induction); bare-object selection semantics (C05).'),
 'C15': ('key-presence analysis over all paths; scenario evaluation; exception escape set of the destroy breakpoint; routing / reopen rules of the connection manager lifted (C04.2, C04.4)',
         'decides: no dict subscript/del on the connection tables without the key shown present, open iff address unknown, close forgets the address and is forwarded, thread mismatch only warns, no KeyError/RuntimeError escapes stop(), behind the plugin a message reaches the connection open at its address now and a re-opened address is a new connection. NOT decided: GDB/libwayland behaviour.'),
 'C17': ('enumeration of ESC literals and switch reads; symbolic-string paths of color(); abstract evaluation of colour codes + automata inclusion in no_color; taint into layout; sanitiser ordering',
         'decides: only color() emits escapes, off => text itself, every code is [0-9;]* and removable by no_color, no len/ljust/slicing of coloured text, pasted text is stripped of colour before tokenising. NOT decided: escape sequences arriving in the input.'),
 'C18': ('exception-flow closures over the RTA call graph with a conditional triage table; decoder configuration of the input streams; abstract-method completeness',
         'decides (for the modelled exception kinds: raise, assert, int()/float(), dict subscripts): parser signals only RuntimeError and every caller reports it, matcher evaluation/printing total, parse loop cannot be left by an exception, command dispatcher escape set within the triage table, lenient decoding in all three modes. NOT decided: TypeError/IndexError/AttributeError, recursion/memory, OS errors, prompt EOF.'),
 'C19': ('path enumeration of _split_command/_select_mode; identity chains into argparse/Arguments/subprocess/GDB; quoting-function check',
         'decides: split shapes (i, i+1, cluster minus last letter), argparse sees only our half, forwarded words unmodified and in order, matcher errors re-raised and reported with non-zero exit, exactly one mode else usage, our words re-quoted through a total quoting function. NOT decided: GDB\'s own command-line parsing.'),
 'C16': ('provenance of time values, scenario evaluation of the separator guard',
         'decides: ms->s, timestamp relative to first message (shift invariance), separator iff gap > 1.0 s between shown messages, marker handling, what is printed. NOT decided: rounding of the format.'),
}

NOT_APPLICABLE = {
}

PENDING = ['C07', 'C08', 'C09', 'C13', 'C14', 'C15', 'C17', 'C18', 'C19']


def main():
    props = [json.loads(l)['id'] for l in open(os.path.join(HERE, 'properties.jsonl'))]
    checks = []
    for pid in props:
        if pid in CHECKS and os.path.exists(os.path.join(HERE, 'sa', 'rules', pid.lower() + '.py')):
            tech, note = CHECKS[pid]
            checks.append({
                'property_id': pid,
                'quick_cmd': './check %s --tier quick' % pid,
                'thorough_cmd': './check %s --tier thorough' % pid,
                'evidence_file': '/verif/evidence/%s.json' % pid,
                'replay_cmd_template': './check %s --replay {path}' % pid,
                'engine': 'sa',
                'level_claimed': {'category': 'other', 'text': LEVEL + 'Thorough tier adds full bounds and the mutant/variant self-test of the rules.',
                                  'design_ref': 'DESIGN.md section 5, ' + pid},
                'level_note': note,
                'technique': 'static analysis: ' + tech,
            })
    na = [{'property_id': k, 'reason': v} for k, v in NOT_APPLICABLE.items()]
    for pid in props:
        if pid not in NOT_APPLICABLE and not any(c['property_id'] == pid for c in checks):
            na.append({'property_id': pid, 'reason': 'check not built yet (static design exists in DESIGN.md section 5); not claimed until its rules run'})
    man = {
        'version': 1,
        'setup_cmd': './check C02 --tier quick >/dev/null 2>&1; true',
        'hooks': {'guard': 'WMWW_WAYLAND_DEBUG_VERIF', 'enable': 'no hooks: the analysis reads the unmodified source of /repo (override with REPO=<dir>)',
                  'baseline_off_cmd': 'cd /repo && /venv/bin/python -m pytest -ra -q -p no:cacheprovider --timeout=900 --continue-on-collection-errors',
                  'source_commits': [], 'add_only': True},
        'engines': [{'name': 'sa', 'path': '/verif/sa', 'serves_properties': [c['property_id'] for c in checks],
                     'kind_free_text': 'repository-specific static analyser (stdlib only): resolved call graph with RTA, path-sensitive structural interpreter, effect and exception-flow closures, regex automata, XML data readers'}],
        'checks': checks,
        'not_applicable': na,
        'notes': 'exit 0 held / 1 VIOLATION / 2 ANALYSIS-ERROR. known_findings.json lists recorded defects; fix: commits in /repo repair the others. See DESIGN.md.',
    }
    with open(os.path.join(HERE, 'MANIFEST.json'), 'w') as f:
        json.dump(man, f, indent=1)
    print('wrote MANIFEST.json with %d checks, %d not_applicable' % (len(checks), len(na)))


if __name__ == '__main__':
    main()
