#!/usr/bin/env python3
"""tools/refresh_seed_meta.py [seed ...]: re-runs every check against each stored seeded change (fresh scratch worktree) and updates the
detected_by_checks / reporting_rules / analysis_error_in_checks fields of its meta.json (the narrative fields are kept)."""
import json, os, subprocess, sys
from concurrent.futures import ThreadPoolExecutor
root = '/verif/seeded'
names = sys.argv[1:] or sorted(os.listdir(root))


def one(name):
    d = os.path.join(root, name)
    out = subprocess.run(['/verif/tools/try_seed.sh', d], capture_output=True, text=True).stdout
    lines = out.strip().splitlines()
    meta = json.load(open(os.path.join(d, 'meta.json')))
    meta['detected_by_checks'] = sorted({l.split()[0] for l in lines if l.startswith('  C') and 'exit=1' in l})
    meta['analysis_error_in_checks'] = sorted({l.split()[0] for l in lines if l.startswith('  C') and 'exit=2' in l})
    meta['reporting_rules'] = sorted({l.split('rule=')[1].split()[0] for l in lines if 'rule=' in l})
    meta['confirmed']['result_line'] = lines[0] if lines else ''
    json.dump(meta, open(os.path.join(d, 'meta.json'), 'w'), indent=1)
    return '%s: %s %s %s' % (name, meta['detected_by_checks'], meta['analysis_error_in_checks'], lines[0][-60:] if lines else '')


with ThreadPoolExecutor(8) as ex:
    for r in ex.map(one, names):
        print(r)
