#!/usr/bin/env python3
"""Regenerates the seeded-change table in DESIGN.md from /verif/seeded/*/meta.json."""
import glob, json, os, re
rows = []
for m in sorted(glob.glob('/verif/seeded/*/meta.json')):
    d = json.load(open(m))
    rows.append('| %s | %s | %s | %s | %s |' % (d['seed'], d['property'], d['needs_to_manifest'].replace('|', '/'), ', '.join(d['reporting_rules']) or ('**not decided** (exit 2 in %s)' % ', '.join(d.get('analysis_error_in_checks', [])) if d.get('analysis_error_in_checks') else '**missed**'),
                                                'yes' if d.get('detected_before_strengthening') else 'no → rule added/strengthened'))
table = ('<!-- seeds:begin -->\n| seed | breaks | needs, in order to manifest | reported by | caught by the rules as first written |\n| --- | --- | --- | --- | --- |\n'
         + '\n'.join(rows) + '\n<!-- seeds:end -->')
p = '/verif/DESIGN.md'
s = open(p).read()
if '@@SEEDTABLE@@' in s:
    s = s.replace('@@SEEDTABLE@@', table)
else:
    s = re.sub(r'<!-- seeds:begin -->.*?<!-- seeds:end -->', lambda m_: table, s, flags=re.S)
open(p, 'w').write(s)
print('%d seeds' % len(rows))
