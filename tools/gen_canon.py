#!/usr/bin/env python3
"""tools/gen_canon.py [repo]: (re)generates sa/canon_params.json from the PINNED tree - the names the rules are written against.
  functions    qualified name -> parameter names
  module_vars  module -> names bound at module level (assignments)
  fingerprints qualified name -> sorted bag of the identifiers / attribute names / constants of the body (rename detection)
  class_attrs  class qualified name -> instance / class attribute names stored in it
  methods      class qualified name -> method names
Run only when /repo's pinned HEAD changes (a fix: commit); never at check time."""
import ast, json, os, sys
sys.path.insert(0, os.path.dirname(os.path.dirname(os.path.abspath(__file__))))
from sa.core import Repo, fingerprint_of, norm     # noqa: E402

root = sys.argv[1] if len(sys.argv) > 1 else '/repo'
repo = Repo(root)
out = {'functions': {}, 'module_vars': {}, 'fingerprints': {}, 'class_attrs': {}, 'methods': {}, 'module_var_values': {}, 'attr_profiles': {}, 'attr_order': {}, 'static_methods': {}}
for f in repo.all_funcs():
    if f.is_module_body:
        continue
    out['functions'][f.qual] = f.params()
    out['fingerprints'][f.qual] = fingerprint_of(f.node)
for m in repo.modules.values():
    names = set()
    for st in m.tree.body:
        if isinstance(st, ast.Assign):
            for t in st.targets:
                for x in ([t] if isinstance(t, ast.Name) else (t.elts if isinstance(t, ast.Tuple) else [])):
                    if isinstance(x, ast.Name):
                        names.add(x.id)
        elif isinstance(st, ast.AnnAssign) and isinstance(st.target, ast.Name):
            names.add(st.target.id)
    out['module_vars'][m.name] = sorted(names)
    vals = {}
    for st in m.tree.body:
        if isinstance(st, ast.Assign) and len(st.targets) == 1 and isinstance(st.targets[0], ast.Name):
            vals[st.targets[0].id] = norm(st.value)[:200]
        elif isinstance(st, ast.AnnAssign) and isinstance(st.target, ast.Name) and st.value is not None:
            vals[st.target.id] = norm(st.value)[:200]
    out['module_var_values'][m.name] = vals
for c in repo.classes.values():
    attrs = set(c.class_attrs)
    for mth in c.methods.values():
        ps = mth.params()
        if not ps or mth.is_static():
            continue
        for n in ast.walk(mth.node):
            if isinstance(n, ast.Attribute) and isinstance(n.ctx, (ast.Store, ast.Del)) and isinstance(n.value, ast.Name) and n.value.id == ps[0]:
                attrs.add(n.attr)
    out['class_attrs'][c.qual] = sorted(attrs)
    prof = {}
    for a_ in attrs:
        st_ = ld_ = 0
        for n in ast.walk(c.node):
            if isinstance(n, ast.Attribute) and n.attr == a_:
                if isinstance(n.ctx, ast.Load):
                    ld_ += 1
                else:
                    st_ += 1
        prof[a_] = [st_, ld_]
    out['attr_profiles'][c.qual] = prof
    order = []
    for n in ast.walk(c.node):
        pass
    first = {}
    for n in ast.walk(c.node):
        nm = None
        if isinstance(n, ast.Attribute) and isinstance(n.ctx, ast.Store) and n.attr in attrs:
            nm = n.attr
        elif isinstance(n, ast.Name) and isinstance(n.ctx, ast.Store) and n.id in c.class_attrs:
            nm = n.id
        if nm is not None:
            pos = (getattr(n, 'lineno', 0), getattr(n, 'col_offset', 0))
            if nm not in first or pos < first[nm]:
                first[nm] = pos
    out['attr_order'][c.qual] = sorted(first, key=lambda k: first[k])
    out['methods'][c.qual] = sorted(c.methods)
    out['static_methods'][c.qual] = sorted(n_ for n_, f_ in c.methods.items() if f_.is_static())
path = os.path.join(os.path.dirname(os.path.dirname(os.path.abspath(__file__))), 'sa', 'canon_params.json')
old = json.load(open(path)) if os.path.exists(path) else {}
for k in ('functions', 'module_vars'):
    if old.get(k) and old[k] != out[k]:
        print('NOTE: %s differs from the stored table (%d vs %d entries)' % (k, len(old[k]), len(out[k])))
json.dump(out, open(path, 'w'), indent=0, sort_keys=True)
print('wrote', path, {k: len(v) for k, v in out.items()})
