#!/usr/bin/env python3
"""tools/keep_seed.py <seed dir> <property> <detected-before: yes|no> "<what it needs to manifest>"  -> /verif/seeded/<name>/"""
import json, os, shutil, subprocess, sys
src, prop, before, needs = sys.argv[1], sys.argv[2], sys.argv[3], sys.argv[4]
name = os.path.basename(src.rstrip('/'))
dst = os.path.join('/verif/seeded', name)
os.makedirs(dst, exist_ok=True)
for fn in ('patch.diff', 'demo.py', 'demo.sh', 'notes.md'):
    p = os.path.join(src, fn)
    if os.path.exists(p):
        shutil.copy(p, os.path.join(dst, fn))
out = subprocess.run(['/verif/tools/try_seed.sh', dst], capture_output=True, text=True).stdout
lines = out.strip().splitlines()
detected = sorted({l.split()[0] for l in lines if l.startswith('  C') and 'exit=1' in l})
undecided = sorted({l.split()[0] for l in lines if l.startswith('  C') and 'exit=2' in l})
rules = sorted({l.split('rule=')[1].split()[0] for l in lines if 'rule=' in l})
meta = {'seed': name, 'property': prop, 'breaks': open(os.path.join(dst, 'notes.md')).read()[:1500] if os.path.exists(os.path.join(dst, 'notes.md')) else '',
        'needs_to_manifest': needs,
        'confirmed': {'how': 'tools/try_seed.sh: fresh worktree of /repo HEAD; demo on clean tree; git apply patch.diff; baseline test command; demo on patched tree; ./check <all> --repo <worktree> --dry',
                      'result_line': lines[0] if lines else ''},
        'detected_by_checks': detected, 'reporting_rules': rules, 'analysis_error_in_checks': undecided,
        'detected_before_strengthening': before == 'yes'}
json.dump(meta, open(os.path.join(dst, 'meta.json'), 'w'), indent=1)
print(name, prop, 'detected by', detected, rules)
