#!/bin/sh
# tools/try_refactor.sh <dir with patch.diff and demo.py> : a behaviour-preserving refactoring must leave every check silent
d=$(cd "$1" && pwd); shift
name=$(basename "$d")
wt=/tmp/vs_$name
git -C /repo worktree remove --force $wt >/dev/null 2>&1
git -C /repo worktree add -q $wt HEAD || exit 9
demo="/venv/bin/python $d/demo.py $wt"
(cd $wt && $demo >/tmp/vs_$name.before 2>&1); b=$?
git -C $wt apply $d/patch.diff || { echo "PATCH DOES NOT APPLY"; git -C /repo worktree remove --force $wt; exit 9; }
t=$(cd $wt && /venv/bin/python -m pytest -q -p no:cacheprovider --timeout=900 --continue-on-collection-errors 2>&1 | tail -1)
(cd $wt && $demo >/tmp/vs_$name.after 2>&1); a=$?
echo "refactoring $name: demo before=$b after=$a tests: $t"
props=$(python3 -c "import json;print(' '.join(c['property_id'] for c in json.load(open('/verif/MANIFEST.json'))['checks']))")
for p in $props; do
  out=$(cd /verif && ./check $p --repo $wt --dry 2>&1); c=$?
  if [ $c = 1 ]; then echo "  FALSE ALARM $p"; echo "$out" | grep -A2 -E "^VIOLATION" | cut -c1-260 | head -12; fi
  if [ $c = 2 ]; then echo "  undecided (exit 2) $p"; echo "$out" | grep -E "^ANALYSIS-ERROR" | cut -c1-260 | head -3; fi
done
find $wt -name __pycache__ -type d -prune -exec rm -rf {} + 2>/dev/null
git -C /repo worktree remove --force $wt
