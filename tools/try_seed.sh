#!/bin/sh
# tools/try_seed.sh <seed dir containing patch.diff and demo.py|demo.sh> [property ids...]
# Confirms a seeded change in a fresh scratch worktree (demo passes before, 214 tests pass after, demo fails after)
# and runs the checks against the patched copy (dry: evidence untouched).
d=$(cd "$1" && pwd); shift
name=$(basename "$d")
wt=/tmp/vs_$name
git -C /repo worktree remove --force $wt >/dev/null 2>&1
git -C /repo worktree add -q $wt HEAD || exit 9
if [ -f $d/demo.py ]; then demo="/venv/bin/python $d/demo.py $wt"; else demo="sh $d/demo.sh $wt"; fi
(cd $wt && $demo >/tmp/vs_$name.before 2>&1); b=$?
git -C $wt apply $d/patch.diff || { echo "PATCH DOES NOT APPLY"; git -C /repo worktree remove --force $wt; exit 9; }
t=$(cd $wt && /venv/bin/python -m pytest -q -p no:cacheprovider --timeout=900 --continue-on-collection-errors 2>&1 | tail -1)
(cd $wt && $demo >/tmp/vs_$name.after 2>&1); a=$?
echo "seed $name: demo before=$b after=$a tests: $t"
props="$@"
[ -z "$props" ] && props=$(python3 -c "import json;print(' '.join(c['property_id'] for c in json.load(open('/verif/MANIFEST.json'))['checks']))")
for p in $props; do
  out=$(cd /verif && ./check $p --repo $wt --dry 2>&1); c=$?
  if [ $c != 0 ]; then echo "  $p exit=$c"; echo "$out" | grep -E "^(VIOLATION|ANALYSIS-ERROR)" | cut -c1-220 | head -5; fi
done
find $wt -name __pycache__ -type d -prune -exec rm -rf {} + 2>/dev/null
git -C /repo worktree remove --force $wt
